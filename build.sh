#!/bin/sh
# usage: . build.sh ; build_plain ; build_race      (sourced by check.sh / replay.sh)
export GOFLAGS=-mod=mod GOPROXY=off GOSUMDB=off GOTOOLCHAIN=local TZ=UTC
VERIF_DIR="${VERIF_DIR:-/verif}"
mkdir -p "$VERIF_DIR/.build"
_build() { # $1 = extra flags, $2 = output
  ( cd "$VERIF_DIR/sim" && go build -tags verif $1 -o "$2.$$" . ) || { echo "build of the simulator against /repo failed" >&2; rm -f "$2.$$"; return 2; }
  mv "$2.$$" "$2"
}
build_plain() { _build "" "$VERIF_DIR/.build/ottosim"; }
build_race() {
  # Under the race detector sync.Pool randomly drops objects and links Put->Get
  # with happens-before edges; that makes race *detection* depend on a hidden
  # random source. The overlay makes a Pool never reuse objects in race builds
  # (legal Pool behaviour), so detection is a function of the schedule alone.
  GR="$(go env GOROOT)"
  OV=""
  if sed 's/if runtime_randn(4) == 0 {/if true {/' "$GR/src/sync/pool.go" > "$VERIF_DIR/.build/pool_overlay.go" \
     && ! cmp -s "$GR/src/sync/pool.go" "$VERIF_DIR/.build/pool_overlay.go"; then
    printf '{"Replace":{"%s/src/sync/pool.go":"%s/.build/pool_overlay.go"}}' "$GR" "$VERIF_DIR" > "$VERIF_DIR/.build/overlay.json"
    OV="-overlay $VERIF_DIR/.build/overlay.json"
  else
    echo "build.sh: sync.Pool overlay not applicable to this toolchain; race detection may be schedule-independent-nondeterministic" >&2
  fi
  _build "-race $OV" "$VERIF_DIR/.build/ottosim_race"
}
build_race_keep() {
  # Third flavour: race detector armed and a Pool that never drops what is Put
  # (the toolchain's own code minus the random drop). Put->Get keeps its
  # happens-before edge, so legitimate reuse stays silent, but a use after Put
  # that meets another runtime's use of the same pooled object is reported.
  # Run with GOMAXPROCS=1 (one P, one private pool slot).
  GR="$(go env GOROOT)"
  OV=""
  if sed 's/if runtime_randn(4) == 0 {/if false {/' "$GR/src/sync/pool.go" > "$VERIF_DIR/.build/pool_keep_overlay.go" \
     && ! cmp -s "$GR/src/sync/pool.go" "$VERIF_DIR/.build/pool_keep_overlay.go"; then
    printf '{"Replace":{"%s/src/sync/pool.go":"%s/.build/pool_keep_overlay.go"}}' "$GR" "$VERIF_DIR" > "$VERIF_DIR/.build/overlay_keep.json"
    OV="-overlay $VERIF_DIR/.build/overlay_keep.json"
  fi
  _build "-race $OV" "$VERIF_DIR/.build/ottosim_racekeep"
}
