#!/bin/sh
# Builds the simulator once from files on disk (offline). Checks rebuild it anyway.
export GOFLAGS=-mod=mod GOPROXY=off GOSUMDB=off GOTOOLCHAIN=local
cd "$(dirname "$0")/sim" && mkdir -p ../.build && go build -tags verif -o ../.build/ottosim . 
