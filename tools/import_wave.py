#!/usr/bin/env python3
"""Import confirmed sub-agent changes into /verif/seeded/<id>/.

usage: import_wave.py <wave-number> <plan.json>
plan.json: [[batch, m, id, caught_by], ...]  e.g. ["w8a","m1","C18-w8-1","C18 quick at once: irq_panic_lost"]
The source is /tmp/wt/<batch>/_out/<m>/ (patch.diff, demo*, NOTES.md, optional patch_original_base.diff).
"""
import json, os, shutil, subprocess, sys

wave = int(sys.argv[1])
plan = json.load(open(sys.argv[2]))
for b, m, mid, caught in plan:
    src = f'/tmp/wt/{b}/_out/{m}'
    dst = f'/verif/seeded/{mid}'
    os.makedirs(dst, exist_ok=True)
    patch = os.path.join(src, 'patch.diff')
    r = subprocess.run(['git', '-C', '/repo', 'apply', '--check', patch], capture_output=True, text=True)
    for f in os.listdir(src):
        if f.startswith('demo') or f in ('NOTES.md', 'patch.diff', 'patch_original_base.diff'):
            s = os.path.join(src, f)
            if os.path.isdir(s):
                shutil.copytree(s, os.path.join(dst, f), dirs_exist_ok=True)
            else:
                shutil.copy(s, os.path.join(dst, f))
    notes = open(os.path.join(src, 'NOTES.md')).read() if os.path.exists(os.path.join(src, 'NOTES.md')) else ''
    prop = mid[:3]
    meta = {
        "id": mid, "property": prop, "wave": wave,
        "origin": "independent sub-agent given only the property record(s), a scratch worktree and a description of the mechanism families not to repeat",
        "applies_to_repo_head": r.returncode == 0,
        "confirmed": "tools/confirm_mutant.sh: demo passes on the clean tree, full suite passes with the patch, demo fails with the patch" + (" (with -race)" if prop == 'C20' else ""),
        "needs_to_manifest": "see NOTES.md", "caught_by": caught,
        "summary": notes.strip().split('\n')[0][:300],
    }
    json.dump(meta, open(os.path.join(dst, 'meta.json'), 'w'), indent=1)
    print(mid, 'applies' if r.returncode == 0 else 'DOES NOT APPLY to HEAD')
