#!/usr/bin/env python3
"""Regenerates /verif/MANIFEST.json (single source of truth for the registered checks)."""
import json, os
V = os.path.dirname(os.path.dirname(os.path.abspath(__file__)))
na = {
 "C01":"Pure function of program text (no schedule, clock, fault or interleaving in the statement); deciding it needs an independent ES5 evaluator, which is differential/model-based testing, not deterministic simulation. (Route independence is exercised as a by-product by the C20/C04 engines.)",
 "C03":"Pure function text -> tree; needs a grammar-directed generator and tree oracle, nothing for a simulator to schedule or fault.",
 "C05":"Pure function of two values (ES5 sections 9/11 conversions); no nondeterminism or fault dimension.",
 "C06":"Pure function double <-> text; boundary-directed input generation against an arbitrary-precision model is the right tool, not simulation.",
 "C07":"Sequential fault-free operation histories on one object judged against an ES5 8.12 model: model-based testing; no schedule/fault for a simulator to own.",
 "C08":"Same as C07 for the ES5 15.4 array model: sequential, single goroutine, fault-free.",
 "C09":"Pure functions of their arguments (String methods).",
 "C10":"Pure regexp translation plus sequential lastIndex histories; no fault or schedule dimension.",
 "C11":"Pure functions (JSON grammar / round trip).",
 "C12":"Pure arithmetic on explicit time values; the wall clock is not part of the property.",
 "C13":"Pure functions (Math.random is excluded by the property itself).",
 "C14":"Finite static table compared once against a spec-derived table: exhaustive enumeration, not simulation.",
 "C15":"Pure Go<->JS value conversions.",
 "C16":"Single-goroutine sequential histories; the 'interleaved Go-side mutation' is a fixed operation list and judging it needs the conversion matrix as a model, not a scheduler or fault injector.",
 "C19":"Pure function of program text and trace limit (error class/message/position); needs a position-aware generator as oracle, no schedule/fault dimension.",
}
checks = []
def check(pid, engine, cat, text, note, technique, ref):
    checks.append({
      "property_id": pid,
      "quick_cmd": "./check.sh %s quick" % pid,
      "thorough_cmd": "./check.sh %s thorough" % pid,
      "evidence_file": "/verif/evidence/%s.json" % pid,
      "replay_cmd_template": "./replay.sh {path}",
      "engine": engine,
      "level_claimed": {"category": cat, "text": text, "design_ref": ref},
      "level_note": note,
      "technique": technique,
    })
exec(open(os.path.join(V,'tools','checks.py')).read())
claimed = {c["property_id"] for c in checks}
m = {
 "version":1,
 "setup_cmd":"./setup.sh",
 "hooks":{"guard":"verif","enable":"go build -tags verif (checks build /repo's working tree through the replace directive in /verif/sim/go.mod)","baseline_off_cmd":"cd /repo && GOFLAGS=-mod=mod go test -json -vet=off -count=1 -timeout 25m ./...","source_commits":["ee1eeb8","fde73bc"],"add_only":True},
 "engines": engines,
 "checks": checks,
 "notes": notes,
 "not_applicable":[{"property_id":k,"reason":v} for k,v in sorted(na.items()) if k not in claimed],
}
json.dump(m,open(os.path.join(V,'MANIFEST.json'),'w'),indent=1)
print("claimed:",sorted(claimed))
