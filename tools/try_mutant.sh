#!/bin/sh
# usage: try_mutant.sh <patch.diff> <property> [tier]  -- apply to /repo, run check, always revert
P="$1"; PROP="$2"; TIER="${3:-quick}"
cd /repo || exit 9
if [ -n "$(git status --porcelain)" ]; then echo "/repo not clean"; exit 9; fi
if ! git apply --3way "$P" 2>/tmp/apply.err && ! git apply "$P" 2>>/tmp/apply.err; then echo "APPLY FAILED: $(cat /tmp/apply.err)"; git checkout -- . ; git reset -q --hard HEAD; exit 8; fi
cd /verif && ./check.sh "$PROP" "$TIER" > /tmp/mut.out 2>&1; RC=$?
cd /repo && git reset -q --hard HEAD && git clean -fdq
echo "rc=$RC"; grep -E "VIOLATION|class=|OK property|KNOWN|batches=|harness|build" /tmp/mut.out | head -8
exit $RC
