#!/bin/sh
# usage: try_mutant_iso.sh <patch.diff> <property> [tier]
# Like try_mutant.sh but in an isolated scratch copy (worktree of /repo + copy of /verif),
# so /repo itself is never touched (safe while background runs are building from it).
P="$(readlink -f "$1")"; PROP="$2"; TIER="${3:-quick}"
R=$(mktemp -d /tmp/iso.XXXXXX)
git -C /repo worktree add -q --detach $R/repo HEAD || exit 2
mkdir -p $R/verif && rsync -a --exclude .git --exclude .build --exclude replays --exclude evidence /verif/ $R/verif/
sed -i "s#=> /repo#=> $R/repo#" $R/verif/sim/go.mod
cd $R/repo
if ! git apply --3way "$P" 2>/dev/null && ! git apply "$P" 2>/dev/null; then echo "APPLY FAILED"; RC=8; else
  cd $R/verif && VERIF_DIR=$R/verif ./check.sh "$PROP" "$TIER" > $R/out.txt 2>&1; RC=$?
  echo "rc=$RC"; grep -E "VIOLATION|class=|OK property|KNOWN|batches=|harness|build" $R/out.txt | sed "s#$R##g" | head -8
fi
mkdir -p /tmp/iso_replays; cp $R/verif/replays/*.json /tmp/iso_replays/ 2>/dev/null
git -C /repo worktree remove --force $R/repo; rm -rf $R
exit $RC
