#!/bin/sh
# usage: confirm_mutant.sh <worktree> <mutant-dir> [race]
# Confirms: demo passes on clean tree; with patch: suite passes, demo fails.
WT="$1"; M="$2"; RACE=""; [ "$3" = race ] && RACE="-race"
export GOFLAGS=-mod=mod GOPROXY=off GOSUMDB=off
cd "$WT" || exit 9
git checkout -q -- . ; git clean -fdq -e _out
PATCH="$M/patch.diff"
cp "$M/demo_test.go" ./zz_demo_test.go
go test -vet=off -count=1 $RACE -run 'TestDemo' . >/tmp/cm_clean.out 2>&1; CLEAN=$?
rm -f zz_demo_test.go
git apply "$PATCH" || { echo "$M: APPLY-FAIL"; exit 8; }
go test -vet=off -count=1 ./... >/tmp/cm_suite.out 2>&1; SUITE=$?
cp "$M/demo_test.go" ./zz_demo_test.go
timeout 600 go test -vet=off -count=1 $RACE -run 'TestDemo' . >/tmp/cm_mut.out 2>&1; MUT=$?
rm -f zz_demo_test.go
git checkout -q -- . ; git clean -fdq -e _out
echo "$M: demo_on_clean=$CLEAN suite_with_patch=$SUITE demo_with_patch=$MUT"
[ $CLEAN = 0 ] && [ $SUITE = 0 ] && [ $MUT != 0 ]
