#!/bin/sh
# For every "fix:" commit in /repo: revert it in an isolated scratch copy and run the check of the
# property it was recorded under; the check must report a violation again.
# usage: revert_fixes.sh [budget_s] [workers]  -> writes findings/REVERT.md
BUDGET="${1:-45}"; WORKERS="${2:-8}"
OUT=/verif/findings/REVERT.md
echo "# Each fix commit reverted (isolated copy), check of its property re-run (quick, ${BUDGET}s, ${WORKERS} workers)" > $OUT
echo "" >> $OUT; echo "| fix commit | property | result | class |" >> $OUT; echo "|---|---|---|---|" >> $OUT
python3 - <<'PY' > /tmp/fixlist.txt
import json,re
d=json.load(open('/verif/known_findings.json'))
for l in d['fixed']:
    m=re.match(r'fixed: property=(C\d+) ([0-9a-f]{7})',l)
    if m: print(m.group(2),m.group(1))
PY
while read H PROP; do
  R=$(mktemp -d /tmp/rev.XXXXXX)
  git -C /repo worktree add -q --detach $R/repo HEAD || exit 2
  mkdir -p $R/verif && rsync -a --exclude .git --exclude .build --exclude replays --exclude evidence /verif/ $R/verif/
  sed -i "s#=> /repo#=> $R/repo#" $R/verif/sim/go.mod
  cd $R/repo
  if ! git revert --no-commit $H >/dev/null 2>&1; then res="revert conflicts"; cls=""; else
    if ! GOFLAGS=-mod=mod go build ./... 2>/dev/null; then res="does not build after revert"; cls=""; else
      cd $R/verif && VERIF_DIR=$R/verif VERIF_BUDGET_S=$BUDGET VERIF_WORKERS=$WORKERS ./check.sh $PROP quick > $R/out.txt 2>&1; rc=$?
      cls=$(grep -m1 "class=" $R/out.txt | sed 's/.*class=\([a-z_]*\).*/\1/')
      if [ $rc -eq 1 ]; then res="violation reported again"; elif [ $rc -eq 0 ]; then res="NOT DETECTED"; else res="exit $rc"; fi
    fi
  fi
  echo "| $H | $PROP | $res | $cls |" >> $OUT
  cd /; git -C /repo worktree remove --force $R/repo; rm -rf $R
done < /tmp/fixlist.txt
echo "done" >> $OUT
