#!/bin/sh
# usage: try_benign.sh <patch.diff> [props...]  -- apply a behaviour-preserving change to /repo, run the checks, always revert
P="$1"; shift; PROPS="${*:-C18 C20 C17 C04 C02}"
cd /repo || exit 9
if [ -n "$(git status --porcelain)" ]; then echo "/repo not clean"; exit 9; fi
if ! git apply --3way "$P" 2>/tmp/apply.err && ! git apply "$P" 2>>/tmp/apply.err; then echo "APPLY FAILED: $(tail -3 /tmp/apply.err)"; git checkout -- . ; git reset -q --hard HEAD; exit 8; fi
if ! GOFLAGS=-mod=mod go build ./... 2>/tmp/build.err; then echo "BUILD FAILED after apply: $(head -3 /tmp/build.err)"; git reset -q --hard HEAD; git clean -fdq; exit 7; fi
RCALL=0
for p in $PROPS; do
  cd /verif && ./check.sh "$p" quick > /tmp/ben_$p.out 2>&1; RC=$?
  echo "  $p rc=$RC $(grep -E 'VIOLATION|class=' /tmp/ben_$p.out | head -2 | tr '\n' ' ')"
  [ $RC -ne 0 ] && RCALL=1
done
cd /repo && git reset -q --hard HEAD && git clean -fdq
exit $RCALL
