#!/bin/sh
# Re-runs every kept behaviour-preserving change against the current checks (isolated copies).
# usage: rerun_benign.sh  -> appends a dated section to benign/RERUN.md
OUT=/verif/benign/RERUN.md
echo "## re-run $(date -u +%Y-%m-%dT%H:%MZ) at /verif $(git -C /verif rev-parse --short HEAD), /repo $(git -C /repo rev-parse --short HEAD)" >> $OUT
for d in /verif/benign/bn*; do
  n=$(basename $d)
  case $n in
    bn1-*) PROPS="C18 C02 C20";;
    bn2-*) PROPS="C17 C20 C18";;
    bn3-*) PROPS="C04 C20 C18";;
    bn4-*) PROPS="C02 C20 C17";;
    bn5-*) PROPS="C18 C17 C20";;
    bn6-*) PROPS="C04 C20 C02";;
    bn7-*) PROPS="C02 C18 C17";;
    bn8-*) PROPS="C18 C17 C20";;
    bn9-*) PROPS="C02 C04 C20";;
    *) PROPS="C02 C04 C17 C18 C20";;
  esac
  echo "- $n: $(VERIF_BUDGET_S=${VERIF_BUDGET_S:-30} VERIF_WORKERS=${VERIF_WORKERS:-6} /verif/tools/try_benign_iso.sh $d/patch.diff $PROPS 2>&1 | tr '\n' ' ')" >> $OUT
done
echo "done" >> $OUT
