#!/bin/sh
# usage: try_benign_iso.sh <patch.diff> <prop> [<prop> ...]
# Applies a behaviour-preserving change in an isolated scratch copy and runs the quick checks.
P="$(readlink -f "$1")"; shift
R=$(mktemp -d /tmp/isob.XXXXXX)
git -C /repo worktree add -q --detach $R/repo HEAD || exit 2
mkdir -p $R/verif && rsync -a --exclude .git --exclude .build --exclude replays --exclude evidence /verif/ $R/verif/
sed -i "s#=> /repo#=> $R/repo#" $R/verif/sim/go.mod
cd $R/repo
RCALL=0
if ! git apply --3way "$P" 2>/dev/null && ! git apply "$P" 2>/dev/null; then echo "  APPLY FAILED"; RCALL=8; else
  if ! GOFLAGS=-mod=mod go build ./... 2>/dev/null; then echo "  BUILD FAILED after 3-way apply"; RCALL=7; else
  for p in "$@"; do
    cd $R/verif && VERIF_DIR=$R/verif ./check.sh "$p" quick > $R/out_$p.txt 2>&1; RC=$?
    echo "  $p rc=$RC $(grep -E 'VIOLATION|class=' $R/out_$p.txt | head -2 | sed "s#$R##g" | tr '\n' ' ')"
    [ $RC -ne 0 ] && RCALL=1
  done; fi
fi
git -C /repo worktree remove --force $R/repo; rm -rf $R
exit $RCALL
