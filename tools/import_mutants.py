#!/usr/bin/env python3
"""Import confirmed sub-agent mutants from /tmp/wt/<batch>/_out/m<i> into /verif/seeded/<id>/."""
import json, os, shutil, subprocess, sys
batches = sys.argv[1:]
for b in batches:
    prop = 'C' + b[1:3]
    for i in (1,2,3):
        src = f'/tmp/wt/{b}/_out/m{i}'
        if not os.path.isdir(src): continue
        mid = f'{prop}-{b[3:]}{i}' if len(b) > 3 else f'{prop}-{i}'
        dst = f'/verif/seeded/{mid}'
        os.makedirs(dst, exist_ok=True)
        patch = os.path.join(src, 'patch_rebased.diff') if os.path.exists(os.path.join(src,'patch_rebased.diff')) else os.path.join(src,'patch.diff')
        # must apply to current /repo HEAD
        r = subprocess.run(['git','-C','/repo','apply','--check',patch],capture_output=True,text=True)
        applies = (r.returncode==0)
        shutil.copy(patch, os.path.join(dst,'patch.diff'))
        if os.path.exists(os.path.join(src,'patch.diff')) and patch.endswith('patch_rebased.diff'):
            shutil.copy(os.path.join(src,'patch.diff'), os.path.join(dst,'patch_original_base.diff'))
        for f in os.listdir(src):
            if f.startswith('demo') or f=='NOTES.md' or f=='crash':
                s=os.path.join(src,f)
                if os.path.isdir(s): shutil.copytree(s, os.path.join(dst,f), dirs_exist_ok=True)
                else: shutil.copy(s, os.path.join(dst,f))
        notes = open(os.path.join(src,'NOTES.md')).read() if os.path.exists(os.path.join(src,'NOTES.md')) else ''
        meta = {
          "id": mid, "property": prop,
          "origin": "independent sub-agent given only the property record and a scratch worktree",
          "base_commit": "ee1eeb8",
          "applies_to_repo_head": applies,
          "confirmed": "tools/confirm_mutant.sh in the scratch worktree: demo passes on the clean tree, full suite passes with the patch, demo fails with the patch" + (" (with -race)" if prop=='C20' else ""),
          "needs_to_manifest": "see NOTES.md",
          "summary": notes.strip().split('\n')[0][:300],
        }
        json.dump(meta, open(os.path.join(dst,'meta.json'),'w'), indent=1)
        print(mid, 'applies' if applies else 'DOES NOT APPLY to HEAD')
