#!/bin/sh
# Runs every seeded change against the current checks in an isolated copy
# (scratch worktree of /repo + scratch copy of /verif), so /repo itself is not touched.
# usage: regress_seeded.sh [budget_s] [workers]   -> writes seeded/REGRESSION.md
BUDGET="${1:-45}"; WORKERS="${2:-8}"
R=/tmp/reg; rm -rf $R; mkdir -p $R
git -C /repo worktree remove --force $R/repo 2>/dev/null; git -C /repo worktree prune
git -C /repo worktree add -q --detach $R/repo HEAD || exit 2
mkdir -p $R/verif && rsync -a --exclude .git --exclude .build --exclude replays --exclude evidence /verif/ $R/verif/
sed -i "s#=> /repo#=> $R/repo#" $R/verif/sim/go.mod
OUT=/verif/seeded/REGRESSION.md
echo "# Seeded changes against the checks at $(git -C /verif rev-parse --short HEAD) (repo $(git -C /repo rev-parse --short HEAD)), quick tier, budget ${BUDGET}s, ${WORKERS} workers" > $OUT
echo "" >> $OUT; echo "| id | result | class |" >> $OUT; echo "|---|---|---|" >> $OUT
for d in /verif/seeded/*/; do
  id=$(basename $d); [ -f "$d/patch.diff" ] || continue
  prop=${id%%-*}
  cd $R/repo && git checkout -q -- . && git clean -fdq
  if ! git apply --3way "$d/patch.diff" 2>/dev/null && ! git apply "$d/patch.diff" 2>/dev/null; then echo "| $id | patch does not apply | |" >> $OUT; git checkout -q -- .; git reset -q --hard HEAD; continue; fi
  cd $R/verif && VERIF_DIR=$R/verif VERIF_BUDGET_S=$BUDGET VERIF_WORKERS=$WORKERS ./check.sh $prop quick > $R/out.txt 2>&1; rc=$?
  cls=$(grep -m1 "class=" $R/out.txt | sed 's/.*class=\([a-z_]*\).*/\1/')
  if [ $rc -eq 1 ]; then res="caught"; elif [ $rc -eq 0 ]; then res="MISSED"; else res="exit $rc"; fi
  echo "| $id | $res | $cls |" >> $OUT
  cd $R/repo && git reset -q --hard HEAD && git clean -fdq
done
git -C /repo worktree remove --force $R/repo; rm -rf $R
echo "done" >> $OUT
