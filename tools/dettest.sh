#!/bin/sh
# Determinism self-test: the same PRNG value must give the same event log in
# many processes, at several GOMAXPROCS values. usage: dettest.sh [runs-per-setting]
N="${1:-12}"
VERIF_DIR="$(cd "$(dirname "$0")/.." && pwd)"; export VERIF_DIR
. "$VERIF_DIR/build.sh"
build_plain || exit 2
build_race || exit 2
export GORACE="halt_on_error=1 exitcode=66"
rc=0
one() { # engine bin seed extra
  eng="$1"; bin="$2"; seed="$3"; extra="$4"
  out="$(mktemp)"
  for mp in 1 4 16; do
    i=0
    while [ $i -lt "$N" ]; do
      ( GOMAXPROCS=$mp "$bin" dethash --engine "$eng" --seed "$seed" --checks 12 --tier quick $extra 2>/dev/null | cut -d' ' -f1 >> "$out" ) &
      i=$((i+1))
      [ $((i % 16)) -eq 0 ] && wait
    done
    wait
  done
  n=$(sort "$out" | uniq | wc -l); tot=$(wc -l < "$out")
  echo "engine=$eng bin=$(basename $bin) seed=$seed processes=$tot distinct_event_log_hashes=$n $(sort "$out" | uniq -c | head -3 | tr '\n' ' ')"
  [ "$n" -eq 1 ] || rc=1
  rm -f "$out"
}
for seed in 11 12; do
  one stepsim "$VERIF_DIR/.build/ottosim" $seed ""
  one multisim "$VERIF_DIR/.build/ottosim" $seed ""
  one multisim "$VERIF_DIR/.build/ottosim_race" $seed ""
  one copysim "$VERIF_DIR/.build/ottosim" $seed ""
  one readerfault "$VERIF_DIR/.build/ottosim" $seed ""
  one faultsweep "$VERIF_DIR/.build/ottosim" $seed "--enumfrom 3 --enumto 5"
done
[ $rc -eq 0 ] && echo "DETERMINISM OK" || { echo "DETERMINISM FAILED (harness defect, exit 3)"; exit 3; }
