#!/bin/sh
# usage: check.sh <property-id> [quick|thorough]
# Rebuilds the simulator against /repo's current working tree (build tag
# "verif") and runs the check for one property.
# exit 0: property held on everything explored; 1: VIOLATION printed;
# 2: build failure; 3: harness failure (never a violation).
PROP="$1"
TIER="${2:-${VERIF_TIER:-quick}}"
export GOFLAGS=-mod=mod GOPROXY=off GOSUMDB=off GOTOOLCHAIN=local TZ=UTC
VERIF_DIR="$(cd "$(dirname "$0")" && pwd)"
export VERIF_DIR
mkdir -p "$VERIF_DIR/.build"
cd "$VERIF_DIR/sim" || exit 2
case "$PROP" in
  C20|C17R) RACE="-race"; BIN="$VERIF_DIR/.build/ottosim_race" ;;
  *)   RACE=""; BIN="$VERIF_DIR/.build/ottosim" ;;
esac
if ! go build -tags verif $RACE -o "$BIN.$$" . ; then
  echo "check.sh: build of the simulator against /repo failed" >&2
  rm -f "$BIN.$$"
  exit 2
fi
mv "$BIN.$$" "$BIN"
exec "$BIN" check --prop "$PROP" --tier "$TIER"
