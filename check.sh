#!/bin/sh
# usage: check.sh <property-id> [quick|thorough]
# Rebuilds the simulator against /repo's current working tree (build tag
# "verif") and runs the check for one property.
# exit 0: property held on everything explored; 1: VIOLATION printed;
# 2: build failure; 3: harness failure (never a violation).
PROP="$1"
TIER="${2:-${VERIF_TIER:-quick}}"
VERIF_DIR="$(cd "$(dirname "$0")" && pwd)"
export VERIF_DIR
. "$VERIF_DIR/build.sh"
build_plain || exit 2
BIN="$VERIF_DIR/.build/ottosim"
case "$PROP" in
  C20)
    # children run under the race detector; a report aborts the child with exit 66
    build_race || exit 2
    build_race_keep || exit 2
    export GORACE="halt_on_error=1 exitcode=66"
    exec "$BIN" check --prop "$PROP" --tier "$TIER" --childbin "$VERIF_DIR/.build/ottosim_race" --altbin "$BIN" --keepbin "$VERIF_DIR/.build/ottosim_racekeep" ;;
  *)
    exec "$BIN" check --prop "$PROP" --tier "$TIER" ;;
esac
