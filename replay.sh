#!/bin/sh
# usage: replay.sh <replay-file>   -- re-executes one recorded case in a fresh process
export GOFLAGS=-mod=mod GOPROXY=off GOSUMDB=off GOTOOLCHAIN=local TZ=UTC
VERIF_DIR="$(cd "$(dirname "$0")" && pwd)"; export VERIF_DIR
cd "$VERIF_DIR/sim" || exit 2
RACE=""; BIN="$VERIF_DIR/.build/ottosim"
if grep -q '"race": *true' "$1" 2>/dev/null; then RACE="-race"; BIN="$VERIF_DIR/.build/ottosim_race"; fi
go build -tags verif $RACE -o "$BIN" . || exit 2
case "$1" in /*) F="$1";; *) F="$OLDPWD/$1";; esac
exec "$BIN" replay "$F"
