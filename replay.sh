#!/bin/sh
# usage: replay.sh <replay-file>   -- re-executes one recorded case in a fresh process
VERIF_DIR="$(cd "$(dirname "$0")" && pwd)"; export VERIF_DIR
case "$1" in /*) F="$1";; *) F="$(pwd)/$1";; esac
. "$VERIF_DIR/build.sh"
build_plain || exit 2
if grep -q '"pool": *"keep"' "$F" 2>/dev/null; then
  build_race_keep || exit 2
  export GORACE="halt_on_error=1 exitcode=66"
  exec "$VERIF_DIR/.build/ottosim" replay "$F" --childbin "$VERIF_DIR/.build/ottosim_racekeep"
fi
if grep -q '"race": *true' "$F" 2>/dev/null; then
  build_race || exit 2
  export GORACE="halt_on_error=1 exitcode=66"
  exec "$VERIF_DIR/.build/ottosim" replay "$F" --childbin "$VERIF_DIR/.build/ottosim_race"
fi
exec "$VERIF_DIR/.build/ottosim" replay "$F"
