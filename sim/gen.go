package main

import (
	"fmt"
	"strconv"
	"strings"

	"pgregory.net/rapid"
)

// Workload program generator. Programs are rendered directly from rapid draws
// (rapid shrinks the draw sequence, and every generator below maps smaller
// draws to simpler text: alternative 0 is always the simplest one, list
// lengths shrink to 0). The oracles are differential / journal based, so the
// generator needs no evaluator and encodes no expectation about JavaScript.

// Prelude is run (fault-free) before every workload program. It defines the
// durable stores S.*, the closure log (inc/peek), deterministic state C/F and
// the read-back function.
const preludeJS = `
var S={v:{},d:{},P:function(){},a:{},w:{},arr:[],n:0,srt:[5,2,7,1,4,6,3],srt2:[12,3,9,1,11,5,7,2,10,4,8,6]};
var C=0, F=400, flag=false, t, GQ={};
var inc, peek;
(function(){var log=[]; inc=function(x){log[log.length]=x}; peek=function(){return log.join(',')}})();
function __tc(){try{throw 0}catch(e0){return __rb()}}
function __rb(){
  var d={}, ks=Object.getOwnPropertyNames(S.d), i;
  for(i=0;i<ks.length;i++){var ds=Object.getOwnPropertyDescriptor(S.d,ks[i]); d[ks[i]]=[ds.value,ds.enumerable,ds.writable,ds.configurable];}
  var P={}, pk=Object.getOwnPropertyNames(S.P.prototype);
  for(i=0;i<pk.length;i++){ if(pk[i]!='constructor') P[pk[i]]=S.P.prototype[pk[i]]; }
  return JSON.stringify({v:S.v,d:d,P:P,a:S.a,w:S.w,arr:S.arr,log:peek(),gk:Object.keys(S).join(','),srt:S.srt.slice().sort(function(a,b){return a-b}).join()+'|'+S.srt2.slice().sort(function(a,b){return a-b}).join()+'|'+S.srt.length+'|'+S.srt2.length});
}
`

const nTxKinds = 7

func txText(kind int) string {
	k := strconv.Itoa(kind)
	var store string
	switch kind {
	case 0:
		store = "S.v[t]='p'+t;"
	case 1:
		store = "inc(t);"
	case 2:
		store = "Object.defineProperty(S.d,'k'+t,{value:'p'+t,enumerable:t%2==0,configurable:true,writable:false});"
	case 3:
		store = "S.P.prototype['m'+t]='p'+t;"
	case 4:
		store = "(function(a){arguments[0]='p'+t;S.a[t]=a;})(0);"
	case 5:
		store = "with(S){w[t]='p'+t;}"
	case 6:
		store = "S.arr.push('p'+t);"
	}
	return "t=nid();emit('b',t," + k + ");" + store + "emit('c',t," + k + ");"
}

// continuationJS is run after every exit of the main program (normal or
// abnormal) on the same runtime; its value must equal the value it yields on
// a fresh runtime, and its transactions must commit.
func continuationJS() string {
	var b strings.Builder
	b.WriteString("var t, r=0;\n")
	for k := 0; k < nTxKinds; k++ {
		b.WriteString(txText(k) + "\n")
	}
	b.WriteString(`
L0: for(var ci=0;ci<3;ci++){ for(var cj=0;cj<3;cj++){ if(cj==1) continue L0; if(ci==2) break L0; r+=10*ci+cj+1; } }
L1: { r+=100; break L1; r+=1000; }
L2: L3: do { r+=3; if(r>0) continue L2; r+=5000; } while(false);
for(var ck in {a:1,b:2}){ if(ck=='a') continue; r+=7; }
r+=(function f(n){ return n<=0?0:1+f(n-1) })(3);
try{ try{ throw 7 }catch(e){ r+=e; throw 9 } finally { r+=10000 } }catch(e2){ r+=e2 }
with({q:5}){ r+=q }
switch(r%2){case 0: r+=2; case 1: r+=4; break; default: r+=8}
r+=[1,2,3].map(function(x){return x*2}).reduce(function(a,x){return a+x},0);
r+=eval('var ce=11; ce');
r;
`)
	return b.String()
}

// ---------------------------------------------------------------------------

type genCtx struct {
	depth      int
	inFunc     bool
	brk        int      // enclosing constructs an unlabelled break may target
	cont       int      // enclosing loops an unlabelled continue may target
	labels     []string // labels a break may name
	loopLabels []string // labels a continue may name
}

func (c genCtx) deeper() genCtx { c.depth++; return c }

// fresh function body context: labels and loops do not cross function boundaries
func (c genCtx) fn() genCtx {
	return genCtx{depth: c.depth + 1, inFunc: true}
}

type PG struct {
	t        *rapid.T
	kinds    []string // enabled statement kinds (swarm)
	seq      int
	budget   int
	limit    bool // a stack depth limit is configured (unbounded recursion allowed)
	wantInf  bool // class B: exactly one infinite construct must be placed
	infDone  bool
	fns      []string // names of generated function declarations (hoisted, global)
	decls    []string // text of hoisted global function declarations
	nHostF   int
	maxDepth int
}

var allKinds = []string{
	"tx", "if", "for", "while", "dowhile", "forin", "label", "brk", "switch", "try", "throw",
	"with", "fn", "call", "callback", "accessor", "coerce", "eval", "closure", "debugger",
	"hostfault", "flag", "recurse", "reenter", "var", "ctx", "sortcons",
}

func (g *PG) n(lo, hi int, label string) int {
	if hi <= lo {
		return lo
	}
	return rapid.IntRange(lo, hi).Draw(g.t, label)
}

func (g *PG) coin(label string) bool { return rapid.Bool().Draw(g.t, label) }

func (g *PG) id(prefix string) string {
	g.seq++
	return prefix + strconv.Itoa(g.seq)
}

// newPG draws the swarm configuration.
func newPG(t *rapid.T, budget int, limit, wantInf bool) *PG {
	g := &PG{t: t, budget: budget, limit: limit, wantInf: wantInf, maxDepth: 4}
	g.kinds = []string{"tx"}
	for _, k := range allKinds[1:] {
		if rapid.IntRange(0, 2).Draw(t, "feat_"+k) > 0 || (k == "recurse" && limit) {
			g.kinds = append(g.kinds, k)
		}
	}
	return g
}

// Parts renders a whole program as (hoisted global function declarations, body).
func (g *PG) Parts() (decls, body string) {
	body = g.block(genCtx{}, 1, 6)
	if g.wantInf && !g.infDone {
		body += g.infinite(genCtx{})
	}
	var b strings.Builder
	for _, d := range g.decls {
		b.WriteString(d)
		b.WriteString("\n")
	}
	return b.String(), body
}

// assemble builds the texts actually submitted: for entry "run" one program;
// for the other entries a definition stage plus a function __main invoked
// through another API route.
func assemble(decls, body, entry string) (define, main string) {
	if entry == "" || entry == "run" {
		return "", "var t;\n" + decls + body + "\nS.n;\n"
	}
	return decls + "function __main(){var t;\n" + body + "\nreturn S.n;}\n", "__main"
}

func (g *PG) block(c genCtx, lo, hi int) string {
	n := g.n(lo, hi, "nstmt")
	var b strings.Builder
	for i := 0; i < n; i++ {
		b.WriteString(g.stmt(c))
		b.WriteString("\n")
	}
	return b.String()
}

func (g *PG) body(c genCtx) string { return g.block(c.deeper(), 0, 3) }

func (g *PG) cond() string {
	switch g.n(0, 4, "cond") {
	case 0:
		return "C++%2==0"
	case 1:
		return "C++%3==0"
	case 2:
		return "true"
	case 3:
		return "flag"
	default:
		return "false"
	}
}

func (g *PG) tx() string { return txText(g.n(0, nTxKinds-1, "txkind")) }

func (g *PG) stmt(c genCtx) string {
	g.budget--
	if g.budget <= 0 || c.depth > g.maxDepth {
		return g.tx()
	}
	if g.wantInf && !g.infDone && g.n(0, 5, "inf?") == 5 {
		return g.infinite(c)
	}
	kind := g.kinds[g.n(0, len(g.kinds)-1, "kind")]
	switch kind {
	case "tx":
		return g.tx()
	case "var":
		v := g.id("v")
		return "var " + v + "=" + g.expr() + ";S.n=S.n+1;"
	case "if":
		s := "if(" + g.cond() + "){" + g.body(c) + "}"
		if g.coin("else") {
			s += "else{" + g.body(c) + "}"
		}
		return s
	case "for":
		i := g.id("i")
		cc := c.deeper()
		cc.brk++
		cc.cont++
		switch g.n(0, 2, "forshape") {
		case 0:
			return fmt.Sprintf("for(var %s=0;%s<%d;%s++){%s}", i, i, g.n(0, 3, "cnt"), i, g.block(cc, 0, 3))
		case 1: // empty body, work in the update clause
			return fmt.Sprintf("for(var %s=0;%s<%d;%s++,S.n++);", i, i, g.n(0, 3, "cnt"), i)
		default: // no test: leaves by break
			return fmt.Sprintf("for(var %s=0;;%s++){if(%s>=%d)break;%s}", i, i, i, g.n(0, 3, "cnt"), g.block(cc, 0, 3))
		}
	case "while":
		i := g.id("w")
		cc := c.deeper()
		cc.brk++
		cc.cont++
		return fmt.Sprintf("var %s=0;while(%s++<%d){%s}", i, i, g.n(0, 3, "cnt"), g.block(cc, 0, 3))
	case "dowhile":
		i := g.id("d")
		cc := c.deeper()
		cc.brk++
		cc.cont++
		return fmt.Sprintf("var %s=0;do{%s}while(++%s<%d);", i, g.block(cc, 0, 3), i, g.n(0, 3, "cnt"))
	case "forin":
		i := g.id("k")
		cc := c.deeper()
		cc.brk++
		cc.cont++
		src := []string{"{a:1,b:2}", "[5,6]", "'xy'", "null", "Object.create({p:1,q:2})"}[g.n(0, 4, "forinsrc")]
		return fmt.Sprintf("for(var %s in %s){%s}", i, src, g.block(cc, 0, 3))
	case "label":
		l := g.id("L")
		cc := c.deeper()
		cc.labels = append(append([]string{}, c.labels...), l)
		switch g.n(0, 2, "labshape") {
		case 0:
			return l + ":{" + g.block(cc, 0, 3) + "}"
		case 1:
			i := g.id("i")
			cc.loopLabels = append(append([]string{}, c.loopLabels...), l)
			cc.brk++
			cc.cont++
			return fmt.Sprintf("%s:for(var %s=0;%s<%d;%s++){%s}", l, i, i, g.n(1, 3, "cnt"), i, g.block(cc, 0, 3))
		default:
			i := g.id("w")
			cc.loopLabels = append(append([]string{}, c.loopLabels...), l)
			cc.brk++
			cc.cont++
			return fmt.Sprintf("var %s=0;%s:while(%s++<%d){%s}", i, l, i, g.n(1, 3, "cnt"), g.block(cc, 0, 3))
		}
	case "brk":
		var opts []string
		if c.brk > 0 {
			opts = append(opts, "break")
		}
		if c.cont > 0 {
			opts = append(opts, "continue")
		}
		for _, l := range c.labels {
			opts = append(opts, "break "+l)
		}
		for _, l := range c.loopLabels {
			opts = append(opts, "continue "+l)
		}
		if c.inFunc {
			opts = append(opts, "return 1")
		}
		if len(opts) == 0 {
			return g.tx()
		}
		return "if(" + g.cond() + ")" + opts[g.n(0, len(opts)-1, "brkopt")] + ";"
	case "switch":
		cc := c.deeper()
		cc.brk++
		s := "switch(C++%3){"
		nc := g.n(1, 3, "ncase")
		for i := 0; i < nc; i++ {
			if i == 1 && g.coin("default") {
				s += "default:" + g.block(cc, 0, 2)
			} else {
				s += "case " + strconv.Itoa(i) + ":" + g.block(cc, 0, 2)
			}
			if g.coin("casebrk") {
				s += "break;"
			}
		}
		return s + "}"
	case "try":
		e := g.id("e")
		shape := g.n(0, 3, "tryshape")
		tb := g.body(c)
		if g.coin("trythrow") {
			tb += "if(" + g.cond() + ")throw " + g.thrown() + ";" + g.tx()
		}
		switch shape {
		case 0:
			return "try{" + tb + "}catch(" + e + "){" + g.body(c) + "}"
		case 1:
			return "try{" + tb + "}finally{" + g.body(c) + "}"
		case 2:
			return "try{" + tb + "}catch(" + e + "){" + g.body(c) + "}finally{" + g.body(c) + "}"
		default: // rethrow from catch through finally, caught outside
			return "try{try{" + tb + "}catch(" + e + "){" + g.body(c) + "throw " + e + ";}finally{" + g.body(c) + "}}catch(" + e + "o){" + g.body(c) + "}"
		}
	case "throw":
		return "if(" + g.cond() + ")throw " + g.thrown() + ";"
	case "with":
		return "with({wx:1,wy:{}}){" + g.body(c) + "}"
	case "fn":
		return g.fnDecl(c)
	case "call":
		return g.call(c)
	case "callback":
		return g.callback(c)
	case "accessor":
		o := g.id("o")
		fb := g.fnBody(c)
		switch g.n(0, 2, "accshape") {
		case 0:
			return "var " + o + "={get p(){" + fb + "return 1}};" + o + ".p;"
		case 1:
			return "var " + o + "={set p(x){" + fb + "}};" + o + ".p=1;"
		default:
			return "var " + o + "=Object.defineProperty({},'q',{get:function(){" + fb + "return 2}});S.n+=" + o + ".q;"
		}
	case "coerce":
		fb := g.fnBody(c)
		switch g.n(0, 8, "coshape") {
		case 7:
			// built-ins that test their receiver / argument for NaN first
			e := g.id("ce")
			m := []string{"toFixed", "toExponential", "toPrecision"}[g.n(0, 2, "nanm")]
			return "try{Number.prototype." + m + ".call({valueOf:function(){" + fb + "return 1}},1)}catch(" + e + "){}"
		case 8:
			return "if(Number.isNaN)Number.isNaN({valueOf:function(){" + fb + "return 1}});"
		case 4:
			// the value is converted to a string while an error message is built
			e := g.id("ce")
			return "try{(0,{toString:function(){" + fb + "return 'x'}})()}catch(" + e + "){}"
		case 5:
			e := g.id("ce")
			return "try{[1].forEach({toString:function(){" + fb + "return 'y'}})}catch(" + e + "){}"
		case 6:
			e := g.id("ce")
			return "try{Function.prototype.call.call({toString:function(){" + fb + "return 'z'}})}catch(" + e + "){}"
		case 0:
			return "S.n+=+{valueOf:function(){" + fb + "return 1}};"
		case 1:
			return "(''+{toString:function(){" + fb + "return 'x'}});"
		case 2:
			return "[{toString:function(){" + fb + "return 'y'}},1].join();"
		default:
			return "({valueOf:function(){" + fb + "return 1}})<2;"
		}
	case "eval":
		inner := g.block(genCtx{depth: c.depth + 1}, 0, 3)
		q := strconv.Quote("var t;" + inner + "1")
		switch g.n(0, 3, "evalshape") {
		case 0:
			return "eval(" + q + ");"
		case 1:
			return "(0,eval)(" + q + ");"
		case 2:
			return "Function(" + q + ")();"
		default:
			return "heval(" + q + ");"
		}
	case "closure":
		cN := g.id("c")
		fb := g.fnBody(c)
		return "var " + cN + "=(function(){var k=0;return function(){k++;" + fb + "return k}})();" + cN + "();S.n+=" + cN + "();"
	case "debugger":
		return "debugger;"
	case "sortcons":
		// an in-place native operation driven by a script callback: wherever it is
		// cut short, the array must still hold exactly its elements
		fb := g.fnBody(c)
		arr := []string{"S.srt", "S.srt2"}[g.n(0, 1, "srtwhich")]
		cmp := []string{"a-b", "b-a", "(a%3)-(b%3)||a-b"}[g.n(0, 2, "srtcmp")]
		return arr + ".sort(function(a,b){" + fb + "return " + cmp + "});"
	case "ctx":
		// a host function asks for Otto.Context() while a visible binding is an
		// accessor: Context runs the getter, so faults can land inside it
		// (one accessor per object: Context reads the bindings of one object in Go
		// map order, two getters with side effects would make the run depend on it;
		// the getter does not re-enter itself through a nested hctx)
		fb := g.fnBody(c)
		w := g.id("wq")
		return "with({get " + w + "(){if(GQ." + w + ")return 0;GQ." + w + "=1;" + fb + "GQ." + w + "=0;return 1}}){hctx();}"
	case "hostfault":
		g.nHostF++
		return "hf();"
	case "flag":
		return "if(flag){emit('f',0,9);}"
	case "recurse":
		r := g.id("r")
		fb := g.fnBody(c)
		if g.limit && g.n(0, 2, "unbounded") >= 1 {
			// unbounded recursion: legal only because a depth limit is configured.
			// The recursive call goes through one of many call forms: each must be
			// stopped by the limit.
			forms := recursionForms(r)
			f := forms[g.n(0, len(forms)-1, "recform")]
			g.decls = append(g.decls, "function "+r+"(n){var t;"+fb+"return "+f+";}")
			return "try{" + r + "(0)}catch(re){emit('r',0,(re instanceof RangeError)?1:0);}"
		}
		g.decls = append(g.decls, "function "+r+"(n){var t;if(n<=0||F--<=0)return 0;"+fb+"return "+r+"(n-1)+1;}")
		depth := g.n(1, 4, "rdepth")
		if g.n(0, 3, "deep?") == 3 {
			// deep but cheap: one transaction per level
			depth = g.n(10, 40, "rdeep")
			g.decls[len(g.decls)-1] = "function " + r + "(n){var t;if(n<=0||F--<=0)return 0;" + g.tx() + "return " + r + "(n-1)+1;}"
		}
		return "S.n+=" + r + "(" + strconv.Itoa(depth) + ");"
	case "reenter":
		if len(g.fns) == 0 {
			return g.fnDecl(c)
		}
		f := g.fns[g.n(0, len(g.fns)-1, "refn")]
		switch g.n(0, 3, "reshape") {
		case 0:
			return "hcall('" + f + "',1);"
		case 1:
			return "hvcall(" + f + ",1);"
		case 2:
			return "hrun(" + strconv.Quote(f+"(1)") + ");"
		default:
			return "hobj(" + f + ");"
		}
	}
	return g.tx()
}

func (g *PG) expr() string {
	switch g.n(0, 5, "expr") {
	case 0:
		return strconv.Itoa(g.n(0, 9, "lit"))
	case 1:
		return "C+1"
	case 2:
		return "'s'+C"
	case 3:
		return "[C,2].length"
	case 4:
		return "(C>1?{a:1}:null)"
	default:
		return "typeof S"
	}
}

func (g *PG) thrown() string {
	switch g.n(0, 3, "thrown") {
	case 0:
		return strconv.Itoa(g.n(0, 9, "lit"))
	case 1:
		return "new Error('x')"
	case 2:
		return "{o:1}"
	default:
		return "new TypeError('y')"
	}
}

// fnBody: statements for the inside of a function (own var t, own context)
func (g *PG) fnBody(c genCtx) string {
	return "var t;" + g.block(c.fn(), 0, 3)
}

func (g *PG) fnDecl(c genCtx) string {
	f := g.id("f")
	body := g.fnBody(c)
	// calls to earlier functions only (the list is extended after the body is
	// generated) keep the call graph acyclic; F bounds the total anyway.
	g.decls = append(g.decls, "function "+f+"(n){if(F--<=0)return 0;"+body+"return n;}")
	g.fns = append(g.fns, f)
	return f + "(1);"
}

func (g *PG) call(c genCtx) string {
	if len(g.fns) == 0 {
		return g.fnDecl(c)
	}
	f := g.fns[g.n(0, len(g.fns)-1, "callee")]
	switch g.n(0, 6, "callshape") {
	case 0:
		return f + "(2);"
	case 1:
		return f + ".call(null,2);"
	case 2:
		return f + ".apply({},[2]);"
	case 3:
		return f + ".bind(null,2)();"
	case 4:
		return "new " + f + "(2);"
	case 5:
		return "S.n+=" + f + "(" + f + "(1));"
	default:
		return "Function.prototype.call.call(" + f + ",null,3);"
	}
}

func (g *PG) callback(c genCtx) string {
	fb := g.fnBody(c)
	switch g.n(0, 10, "cbshape") {
	case 0:
		return "[1,2].forEach(function(x){" + fb + "});"
	case 1:
		return "[1,2].map(function(x){" + fb + "return x});"
	case 2:
		return "[1,2,3].filter(function(x){" + fb + "return x>1});"
	case 3:
		return "S.n+=[1,2].reduce(function(a,x){" + fb + "return a+x},0);"
	case 4:
		return "[3,1,2].sort(function(a,b){" + fb + "return a-b});"
	case 5:
		return "'aXbX'.replace(/X/g,function(m){" + fb + "return m});"
	case 6:
		return "JSON.stringify({toJSON:function(){" + fb + "return 1}});"
	case 7:
		return "JSON.stringify([1,2],function(k,v){" + fb + "return v});"
	case 8:
		return "JSON.parse('[1,2]',function(k,v){" + fb + "return v});"
	case 9:
		return "[1,2].some(function(x){" + fb + "return false});"
	default:
		return "S.n+=hreflect(2,function(x){" + fb + "return x});"
	}
}

// recursionForms lists the call forms through which a function named r can
// call itself; under a stack depth limit every one of them must be stopped.
func recursionForms(r string) []string {
	return []string{
		r + "(n+1)",
		r + ".call(null,n+1)",
		r + ".apply(null,[n+1])",
		r + ".bind(null,n+1)()",
		"new " + r + "(n+1)",
		"eval('" + r + "(1)')",
		"(0,eval)('" + r + "(1)')",
		"hrun('" + r + "(1)')",
		"hcall('" + r + "',1)",
		"hvcall(" + r + ",1)",
		"heval('" + r + "(1)')",
		"[1].map(function(){return " + r + "(n+1)})[0]",
		"({get g(){return " + r + "(n+1)}}).g",
		"+{valueOf:function(){return " + r + "(n+1)}}",
		"JSON.stringify({toJSON:function(){return " + r + "(n+1)}})",
		"Function('return " + r + "(1)')()",
		"[2,1].sort(function(){return " + r + "(n+1)})",
		"'a'.replace(/a/,function(){return " + r + "(n+1)})",
		"hobj(" + r + ")",
		"[1].forEach(function(){" + r + "(n+1)})",
		"JSON.parse('[1]',function(k,v){return " + r + "(n+1)})",
		"Object.defineProperty({},'p',{get:function(){return " + r + "(n+1)}}).p",
		"(''+{toString:function(){return " + r + "(n+1)}})",
	}
}

// infinite: a construct that never terminates by itself (class B programs end
// only because a panicking interrupt is delivered).
func (g *PG) infinite(c genCtx) string {
	g.infDone = true
	shapes := infiniteShapes(g.tx())
	return shapes[g.n(0, len(shapes)-1, "infshape")]
}

// infiniteShapes lists the constructs that never end on their own (tx is a
// transaction text placed in the bodies that have one).
func infiniteShapes(tx string) []string {
	return []string{
		"for(;;){}",
		"for(;;);",
		"while(true){}",
		"do{}while(1);",
		"for(;;){" + tx + "}",
		"while(1){try{" + tx + "}catch(ei){}}",
		"LI:for(;;){continue LI;}",
		"for(;;){try{throw 1}catch(ei){}finally{}}",
		"[1].forEach(function(){for(;;){}});",
		"({get g(){for(;;);}}).g;",
		"+{valueOf:function(){while(true){}}};",
		"[2,1].sort(function(){for(;;){}});",
		"for(var ii=0;;ii++){}",
		"for(;;){if(flag)break;}",
		"eval('for(;;){}');",
		"for(;;){with({}){}}",
		"for(;;)LJ:{break LJ;}",
		"do{continue;}while(true);",
		"for(var ik in {a:1}){for(;;){}}",
		"(function(){for(;;){}})();",
		"new (function(){while(1){}});",
		"hcall('__spin');",
		"switch(1){case 1:for(;;){}}",
		"for(;;){(function(){})()}",
		"while(true);",
		"try{for(;;){}}catch(ei){}",
		"try{for(;;){}}finally{}",
		"try{try{for(;;){}}finally{S.n++}}catch(ei){S.n++}",
		"try{for(;;);}catch(ei){}",
		"try{while(true){}}catch(ei){}",
		"try{do{}while(1);}catch(ei){}finally{}",
		"try{throw 1}catch(ei){for(;;){}}",
		"try{}finally{for(;;){}}",
		"for(;;){try{for(;;){}}catch(ei){}}",
		"try{LK:for(;;){continue LK}}catch(ei){}",
	}
}
