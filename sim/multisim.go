package main

import (
	"bytes"
	"encoding/json"
	"fmt"
	"os"
	"reflect"
	goruntime "runtime"
	"sort"
	"strconv"
	"strings"
	"sync"
	"unsafe"

	"github.com/robertkrimen/otto"
	"github.com/robertkrimen/otto/ast"
	"github.com/robertkrimen/otto/file"
	"github.com/robertkrimen/otto/parser"
	"github.com/robertkrimen/otto/registry"
	"pgregory.net/rapid"
)

// multisim: N runtimes on N real goroutines, exactly one released at a time.
// Which goroutine proceeds at every evaluation step is decided by a PRNG
// seeded from the case. The handoff is invisible to the race detector (plain
// words touched only inside //go:norace functions, no sync object), so the
// detector sees N goroutines with no ordering between them and reports every
// conflicting access pair although the accesses were serialised - and because
// the order is seed-determined, the report replays. See DESIGN.md §3.3.

const maxTasks = 8

// singleCaseProcess is set by the "exec" command (one case per process).
var singleCaseProcess bool

// poolKeep is set in batches run by the race build whose sync.Pool keeps
// everything that is Put (build.sh build_race_keep).
var poolKeep bool

type msched struct {
	active   bool
	n        int
	cur      int
	alive    [maxTasks]bool
	running  [maxTasks]bool // inside a program (mid-evaluation)
	rng      Rng
	strategy int
	pNum     uint64 // switch when rng%pDen < pNum
	pDen     uint64
	burst    int
	prio     [maxTasks]int
	change   [8]int64
	steps    int64
	switches int64
	midSw    int64 // switches while >= 2 tasks were mid-program
	hash     uint64
	perTask  [maxTasks]int64
	lastKind [maxTasks]int
	pairs    [36]int64 // (step kind switched out, step kind switched in)
	stepCap  int64
	overrun  bool
}

var ms msched

//go:norace
//go:noinline
func msNext() uint64 {
	ms.rng.s += 0x9e3779b97f4a7c15
	z := ms.rng.s
	z = (z ^ (z >> 30)) * 0xbf58476d1ce4e5b9
	z = (z ^ (z >> 27)) * 0x94d049bb133111eb
	return z ^ (z >> 31)
}

//go:norace
//go:noinline
func msPick(nAlive, me int) int {
	s := &ms
	k := int(msNext() % uint64(nAlive))
	for i := 0; i < s.n; i++ {
		if s.alive[i] {
			if k == 0 {
				return i
			}
			k--
		}
	}
	return me
}

//go:norace
//go:noinline
func msChoose(me int) int {
	s := &ms
	nAlive := 0
	for i := 0; i < s.n; i++ {
		if s.alive[i] {
			nAlive++
		}
	}
	if nAlive <= 1 {
		if me >= 0 && s.alive[me] {
			return me
		}
		for i := 0; i < s.n; i++ {
			if s.alive[i] {
				return i
			}
		}
		return -1
	}
	if me < 0 || !s.alive[me] {
		if s.strategy == 2 {
			best := -1
			for i := 0; i < s.n; i++ {
				if s.alive[i] && (best < 0 || s.prio[i] > s.prio[best]) {
					best = i
				}
			}
			return best
		}
		return msPick(nAlive, me)
	}
	switch s.strategy {
	case 0: // uniform: switch with probability pNum/pDen at every step
		if msNext()%s.pDen < s.pNum {
			return msPick(nAlive, me)
		}
		return me
	case 1: // bursts: run a geometric number of steps, then switch
		s.burst--
		if s.burst <= 0 {
			s.burst = 1 + int(msNext()%uint64(2*s.pDen))
			return msPick(nAlive, me)
		}
		return me
	case 2: // PCT-style priorities with change points
		for i := range s.change {
			if s.change[i] == s.steps {
				s.prio[me] = -int(s.steps) // demote below everyone
			}
		}
		best := me
		for i := 0; i < s.n; i++ {
			if s.alive[i] && s.prio[i] > s.prio[best] {
				best = i
			}
		}
		return best
	default: // serial: run to completion
		return me
	}
}

//go:norace
//go:noinline
func msYield(kind int) {
	s := &ms
	if !s.active {
		return
	}
	me := s.cur
	s.steps++
	s.perTask[me]++
	if s.perTask[me] > s.stepCap {
		s.overrun = true
	}
	s.lastKind[me] = kind
	next := msChoose(me)
	if next != me && next >= 0 {
		s.switches++
		mid := 0
		for i := 0; i < s.n; i++ {
			if s.running[i] {
				mid++
			}
		}
		if mid >= 2 {
			s.midSw++
		}
		s.pairs[(kind%6)*6+s.lastKind[next]%6]++
		s.hash = (s.hash ^ uint64(next+1)) * 1099511628211
		s.cur = next
		for s.cur != me {
			goruntime.Gosched()
		}
	}
}

//go:norace
//go:noinline
func msWaitTurn(i int) {
	for ms.cur != i {
		goruntime.Gosched()
	}
}

//go:norace
//go:noinline
func msSetRunning(i int, v bool) { ms.running[i] = v }

//go:norace
//go:noinline
func msOverrun() bool { return ms.active && ms.overrun }

//go:norace
//go:noinline
func msDone(i int) {
	s := &ms
	s.alive[i] = false
	s.running[i] = false
	next := msChoose(-1)
	s.hash = (s.hash ^ uint64(next+2)) * 1099511628211
	s.cur = next
}

//go:norace
//go:noinline
func msWaitAll() {
	for ms.cur != -1 {
		goruntime.Gosched()
	}
}

//go:norace
//go:noinline
func msCur() int { return ms.cur }

//go:norace
//go:noinline
func msActive() bool { return ms.active }

func msHook(o *otto.Otto, kind otto.VerifStepKind, node interface{}) {
	t := curMTask()
	if t != nil && (t.abortAt > 0 || len(t.irqAt) > 0) {
		t.progSteps++
		for _, k := range t.irqAt {
			if k == t.progSteps && t.vm.Interrupt != nil {
				// sent before yielding: other runtimes may run (and poll their own
				// channels) before this runtime reaches its poll. Whoever polls this
				// channel runs the function; with independent runtimes that can only
				// be the runtime it was sent to.
				select {
				case t.vm.Interrupt <- func() { curMTask().rec("IRQ") }:
				default:
				}
			}
		}
	}
	msYield(int(kind))
	if msOverrun() {
		panic(harnessAbort{"task step cap"})
	}
	if t != nil && t.abortAt > 0 && t.progSteps >= t.abortAt {
		panic(harnessAbort{"abort"})
	}
}

// ---------------------------------------------------------------------------
// case

type MProg struct {
	Src    string `json:"src"`
	Route  string `json:"route"`            // text | script | program | reader
	Shared int    `json:"shared,omitempty"` // index into Scripts for script/program routes
	Abort  int    `json:"abort,omitempty"`  // >0: the program is killed (panic out of Run) at its Abort-th evaluation step
	IrqAt  []int  `json:"irq_at,omitempty"` // at these evaluation steps of the program a journaling function is sent on the runtime's own Interrupt channel
}

type MTask struct {
	Origin   string  `json:"origin"` // fresh | copy | copycopy | livecopy
	Progs    []MProg `json:"progs"`
	LiveCopy int     `json:"live_copy,omitempty"` // before program #LiveCopy (1-based) the task takes a new Copy() of the template and continues on it
	Chan     bool    `json:"chan,omitempty"`      // the runtime has a (silent) Interrupt channel, so the polling paths run
	NoSeed   bool    `json:"no_seed,omitempty"`   // the runtime keeps whatever random source it was created/copied with; its programs never record a random value
}

type MultiCase struct {
	Engine    string   `json:"engine"`
	Race      bool     `json:"race"`
	Pool      string   `json:"pool,omitempty"` // "keep": race build whose sync.Pool never drops, GOMAXPROCS 1
	Seed      uint64   `json:"seed"`
	Strategy  int      `json:"strategy"`
	PNum      int      `json:"p_num"`
	PDen      int      `json:"p_den"`
	Template  string   `json:"template"`
	Scripts   []string `json:"scripts"`
	Tasks     []MTask  `json:"tasks"`
	Procs     int      `json:"gomaxprocs"`
	TplChan   bool     `json:"template_chan,omitempty"`    // the template has an Interrupt channel when it is copied
	TplNoSeed bool     `json:"template_no_seed,omitempty"` // the template uses the default random source and calls Math.random() before it is copied
	ByteSrc   bool     `json:"byte_src,omitempty"`         // shared Scripts/Programs are compiled from a []byte the caller then reuses
	// Batch, when present, records the process history in which the violation
	// was observed (race detection can depend on what the process executed
	// before); replay falls back to re-running that batch prefix.
	Batch *BatchCtx `json:"batch,omitempty"`
}

// heap every runtime starts with (template and fresh alike): objects that
// exist before any Copy(), for the tasks to delete from, enumerate and call
const multiPreludeJS = `
var T0={a:1,b:2,c:3,d:4,e:5}, T1=[1,2,3,4,5], T2={k1:{v:1},k2:{v:2},k3:{v:3}};
var TB=function(a,b,c,d){return [a,b,c,d].join()}.bind(null,1,2);
var TB5=function(){return Array.prototype.join.call(arguments)}.bind(null,1,2,3,4);
var TB6=function(){return Array.prototype.join.call(arguments)}.bind(null,1,2,3,4,5);
var TG={get x(){return this._x},set x(v){this._x=v},_x:1};
function TF(a,b){delete arguments[0];arguments[1]='w';return String(a)+b}
var TR=/t(\d)/g, TD=new Date(86400000), TE=new RangeError('tpl');
var TC=(function(){var n=0;return function(){return ++n}})();
var TSO={_s:0,set s(v){this._s=v}}, TGO={get g(){return this._g|0},_g:3};
var TBT=function(x){this.acc=(this.acc|0)+x;return this.acc}.bind({acc:0});
var TBG=function(){return typeof this.T0}.bind(this);
var TS=new String('é€\ud834\udd1exyz'), TS2=new String('plain');
function __spin(){}
`

// bridged is a Go value bridged into fresh runtimes (one instance each)
type bridged struct {
	Name  string
	Count int
	Tags  []string
	M     map[string]int
}

func (b *bridged) Sum(x, y int) int { return x + y + b.Count }

// per-task harness state; touched only by the goroutine running the task
// (and by the coordinator before the fork / after the join).
type mtask struct {
	id                 int
	vm                 *otto.Otto
	trace              []string
	nextID             int
	rnd                Rng
	abortAt, progSteps int
	irqAt              []int
}

// taskTable maps the scheduler's current index to harness state. It is
// written before the fork only.
var taskTable [maxTasks]*mtask
var soloTask *mtask

func curMTask() *mtask {
	if msActive() {
		return taskTable[msCur()]
	}
	return soloTask
}

func (t *mtask) rec(s string) { t.trace = append(t.trace, s) }

func installMulti(vm *otto.Otto) {
	must := func(err error) {
		if err != nil {
			fatalf("harness: Set: %v", err)
		}
	}
	must(vm.Set("emit", func(call otto.FunctionCall) otto.Value {
		t := curMTask()
		t.rec("emit " + call.Argument(0).String() + " " + call.Argument(1).String() + " " + call.Argument(2).String())
		return otto.UndefinedValue()
	}))
	must(vm.Set("rec", func(call otto.FunctionCall) otto.Value {
		t := curMTask()
		t.rec("rec " + call.Argument(0).String())
		return otto.UndefinedValue()
	}))
	must(vm.Set("nid", func(call otto.FunctionCall) otto.Value {
		t := curMTask()
		t.nextID++
		v, _ := otto.ToValue(t.nextID)
		return v
	}))
	must(vm.Set("hf", func(call otto.FunctionCall) otto.Value { return otto.UndefinedValue() }))
	must(vm.Set("hctx", func(call otto.FunctionCall) otto.Value {
		ctx := call.Otto.Context()
		_ = ctx.Symbols
		return otto.UndefinedValue()
	}))
	rethrow := func(call otto.FunctionCall, err error) {
		panic(call.Otto.MakeCustomError("HostError", err.Error()))
	}
	must(vm.Set("hcall", func(call otto.FunctionCall) otto.Value {
		v, err := call.Otto.Call(call.Argument(0).String(), nil, call.Argument(1))
		if err != nil {
			rethrow(call, err)
		}
		return v
	}))
	must(vm.Set("hvcall", func(call otto.FunctionCall) otto.Value {
		v, err := call.Argument(0).Call(otto.NullValue(), call.Argument(1))
		if err != nil {
			rethrow(call, err)
		}
		return v
	}))
	must(vm.Set("hobj", func(call otto.FunctionCall) otto.Value {
		o := call.Argument(0).Object()
		if o == nil {
			return otto.UndefinedValue()
		}
		v, err := o.Call("call", nil, 1)
		if err != nil {
			rethrow(call, err)
		}
		return v
	}))
	must(vm.Set("hrun", func(call otto.FunctionCall) otto.Value {
		v, err := call.Otto.Run(call.Argument(0).String())
		if err != nil {
			rethrow(call, err)
		}
		return v
	}))
	must(vm.Set("heval", func(call otto.FunctionCall) otto.Value {
		v, err := call.Otto.Eval(call.Argument(0).String())
		if err != nil {
			rethrow(call, err)
		}
		return v
	}))
}

func setRandom(vm *otto.Otto, seed uint64) {
	r := &Rng{s: seed}
	vm.SetRandomSource(func() float64 { return float64(r.Next()>>11) / float64(1<<53) })
}

func newTemplate(c *MultiCase) *otto.Otto {
	vm := otto.New()
	vm.SetStackDepthLimit(48)
	installMulti(vm)
	if !c.TplNoSeed {
		setRandom(vm, c.Seed^0x7e)
	}
	t := &mtask{id: -1}
	soloTask = t
	if c.TplChan {
		vm.Interrupt = make(chan func(), 1)
	}
	if _, err := vm.Run(preludeJS + multiPreludeJS); err != nil {
		fatalf("harness: prelude: %v", err)
	}
	if c.TplNoSeed {
		vm.Run("Math.random();")
	}
	if c.Template != "" {
		func() {
			defer func() { recover() }()
			vm.Run(c.Template)
		}()
	}
	soloTask = nil
	return vm
}

type sharedSrc struct {
	script  *otto.Script
	program *ast.Program
}

// makeRuntime builds the runtime a task starts on.
func makeRuntime(c *MultiCase, tk *MTask, id int, tpl *otto.Otto) *otto.Otto {
	var vm *otto.Otto
	switch tk.Origin {
	case "fresh":
		vm = otto.New()
		vm.SetStackDepthLimit(48)
		installMulti(vm)
		soloTask = &mtask{id: -1}
		if _, err := vm.Run(preludeJS + multiPreludeJS); err != nil {
			fatalf("harness: prelude: %v", err)
		}
		soloTask = nil
		if err := vm.Set("gs", &bridged{Name: "g", Count: id, Tags: []string{"x", "y"}, M: map[string]int{"k": id}}); err != nil {
			fatalf("harness: Set(gs): %v", err)
		}
	case "copy", "livecopy":
		vm = tpl.Copy()
	case "copycopy":
		vm = tpl.Copy().Copy()
	case "livefresh":
		return nil // created by the task itself, while the others are mid-program
	default:
		fatalf("unknown origin %q", tk.Origin)
	}
	if !keepsDefaultRandom(c, tk) {
		setRandom(vm, c.Seed+uint64(id)*977)
	}
	if tk.Chan {
		vm.Interrupt = make(chan func(), 1)
	}
	return vm
}

// keepsDefaultRandom: a runtime may keep the random source it was created or
// copied with only if that is otto's own default - a copy of a template that
// carries the harness's seeded closure would share harness state.
func keepsDefaultRandom(c *MultiCase, tk *MTask) bool {
	if !tk.NoSeed {
		return false
	}
	return c.TplNoSeed || tk.Origin == "fresh" || tk.Origin == "livefresh"
}

// makeRuntimeLive is makeRuntime("fresh") for use inside a running task: the
// prelude's host calls are journaled into the task itself.
func makeRuntimeLive(c *MultiCase, tk *MTask, t *mtask) *otto.Otto {
	vm := otto.New()
	vm.SetStackDepthLimit(48)
	installMulti(vm)
	if _, err := vm.Run(preludeJS + multiPreludeJS); err != nil {
		t.rec("PRELUDE-ERR " + err.Error())
	}
	if err := vm.Set("gs", &bridged{Name: "g", Count: t.id, Tags: []string{"x", "y"}, M: map[string]int{"k": t.id}}); err != nil {
		t.rec("SET-ERR " + err.Error())
	}
	if !keepsDefaultRandom(c, tk) {
		setRandom(vm, c.Seed+uint64(t.id)*977)
	}
	if tk.Chan {
		vm.Interrupt = make(chan func(), 1)
	}
	return vm
}

// copies made from a template that has a channel keep whatever Copy() gave them

func runProg(t *mtask, p *MProg, shared []sharedSrc, stepsActive bool) {
	var v otto.Value
	var err error
	t.abortAt, t.progSteps, t.irqAt = p.Abort, 0, p.IrqAt
	defer func() {
		t.abortAt, t.irqAt = 0, nil
		if t.vm.Interrupt != nil {
			for len(t.vm.Interrupt) > 0 { // sent but the program ended first
				<-t.vm.Interrupt
			}
		}
	}()
	func() {
		defer func() {
			if x := recover(); x != nil {
				if ha, ok := x.(harnessAbort); ok {
					t.rec("ABORT " + ha.why)
					return
				}
				// a Go panic escaping Run is C02's business; here it only has to be
				// the same in the solo and the interleaved run
				t.rec(fmt.Sprintf("PANIC %T", x))
			}
		}()
		switch p.Route {
		case "script":
			v, err = t.vm.Run(shared[p.Shared].script)
		case "program":
			v, err = t.vm.Run(shared[p.Shared].program)
		case "reader":
			v, err = t.vm.Run(strings.NewReader(p.Src))
		case "compile_self":
			var s *otto.Script
			s, err = t.vm.Compile("", p.Src)
			if err == nil {
				v, err = t.vm.Run(s)
			}
		default:
			v, err = t.vm.Run(p.Src)
		}
		if err != nil {
			t.rec("ERR " + err.Error())
		} else {
			t.rec("VAL " + valStr(v))
		}
	}()
	if d, l := t.vm.VerifScopeDepth(), t.vm.VerifLabelCount(); d != 0 || l != 0 {
		t.rec(fmt.Sprintf("NOT-AT-REST depth=%d labels=%d", d, l))
	}
}

func runTask(c *MultiCase, tk *MTask, t *mtask, tpl *otto.Otto, shared []sharedSrc, interleaved bool) {
	if tk.Origin == "livefresh" {
		// otto.New() (which applies the package-level registry) and the prelude
		// run while other runtimes are mid-program
		fresh := *tk
		fresh.Origin = "fresh"
		// (the construction takes evaluation steps too: the batch step cap can
		// fire inside it; the case is discarded then, like a program that overruns)
		func() {
			defer func() {
				if x := recover(); x != nil {
					ha, ok := x.(harnessAbort)
					if !ok {
						panic(x)
					}
					t.rec("ABORT " + ha.why)
				}
			}()
			t.vm = makeRuntimeLive(c, &fresh, t)
		}()
		if t.vm == nil {
			return
		}
		t.rec("LIVEFRESH")
	}
	for i := range tk.Progs {
		if tk.LiveCopy == i+1 {
			// copy_live: a new copy of the (idle) template taken while other
			// runtimes are mid-program
			t.vm = tpl.Copy()
			if !keepsDefaultRandom(c, tk) {
				setRandom(t.vm, c.Seed+uint64(t.id)*977+uint64(i))
			}
			if tk.Chan {
				t.vm.Interrupt = make(chan func(), 1)
			}
			t.rec("LIVECOPY")
		}
		if interleaved {
			msSetRunning(t.id, true)
		}
		runProg(t, &tk.Progs[i], shared, interleaved)
		if interleaved {
			msSetRunning(t.id, false)
		}
	}
	// read back the durable stores: part of the trace
	func() {
		defer func() {
			if x := recover(); x != nil {
				t.rec(fmt.Sprintf("RB-PANIC %T", x))
			}
		}()
		v, err := t.vm.Run("__rb()")
		if err != nil {
			t.rec("RB-ERR " + err.Error())
		} else {
			t.rec("RB " + v.String())
		}
	}()
}

var fileType = reflect.TypeOf(file.File{})

// deepHash hashes everything reachable from v structurally (pointers are
// numbered in discovery order), used for "a compiled Script is never modified
// by execution".
func deepHash(v interface{}) uint64 {
	h := uint64(1469598103934665603)
	add := func(s string) {
		for i := 0; i < len(s); i++ {
			h = (h ^ uint64(s[i])) * 1099511628211
		}
		h = (h ^ 0xfe) * 1099511628211
	}
	seen := map[unsafe.Pointer]int{}
	var walk func(rv reflect.Value, depth int)
	walk = func(rv reflect.Value, depth int) {
		if depth > 400 {
			add("<deep>")
			return
		}
		if rv.Kind() == reflect.Struct && rv.Type() == fileType {
			// source files are compared observationally (name, text, base)
			add("file:" + rv.FieldByName("name").String() + ":" + strconv.FormatInt(rv.FieldByName("base").Int(), 10) + ":" + rv.FieldByName("src").String())
			return
		}
		switch rv.Kind() {
		case reflect.Ptr:
			if rv.IsNil() {
				add("nil")
				return
			}
			p := unsafe.Pointer(rv.Pointer())
			if id, ok := seen[p]; ok {
				add("@" + strconv.Itoa(id))
				return
			}
			seen[p] = len(seen)
			add("*" + rv.Type().String())
			walk(rv.Elem(), depth+1)
		case reflect.Interface:
			if rv.IsNil() {
				add("nil")
				return
			}
			walk(rv.Elem(), depth+1)
		case reflect.Struct:
			add(rv.Type().String())
			for i := 0; i < rv.NumField(); i++ {
				walk(rv.Field(i), depth+1)
			}
		case reflect.Slice, reflect.Array:
			add("[" + strconv.Itoa(rv.Len()))
			for i := 0; i < rv.Len(); i++ {
				walk(rv.Index(i), depth+1)
			}
		case reflect.Map:
			add("map" + strconv.Itoa(rv.Len()))
			keys := rv.MapKeys()
			sort.Slice(keys, func(i, j int) bool { return fmt.Sprint(keys[i]) < fmt.Sprint(keys[j]) })
			for _, k := range keys {
				walk(k, depth+1)
				walk(rv.MapIndex(k), depth+1)
			}
		case reflect.String:
			add("s" + rv.String())
		case reflect.Bool:
			add(strconv.FormatBool(rv.Bool()))
		case reflect.Int, reflect.Int8, reflect.Int16, reflect.Int32, reflect.Int64:
			add(strconv.FormatInt(rv.Int(), 10))
		case reflect.Uint, reflect.Uint8, reflect.Uint16, reflect.Uint32, reflect.Uint64, reflect.Uintptr:
			add(strconv.FormatUint(rv.Uint(), 10))
		case reflect.Float32, reflect.Float64:
			add(strconv.FormatFloat(rv.Float(), 'g', -1, 64))
		case reflect.Func, reflect.Chan, reflect.UnsafePointer:
			if rv.IsNil() {
				add("nil")
			} else {
				add("fn")
			}
		default:
			add("?" + rv.Kind().String())
		}
	}
	walk(reflect.ValueOf(v), 0)
	return h
}

// ---------------------------------------------------------------------------

type multiEngine struct{}

func (multiEngine) Name() string     { return "multisim" }
func (multiEngine) Property() string { return "C20" }
func (multiEngine) Init() {
	otto.VerifStep = msHook
	// an embedder-registered source that every otto.New() applies
	registry.Register(func() string { return "var __registered = (typeof __registered === 'number' ? __registered : 0) + 1;" })
	initBuiltinSurface()
	if os.Getenv("VERIF_WARM") == "1" {
		warmUp()
	}
}

var warmed bool

// warmUp runs a broad fixed workload once on the coordinator goroutine, so
// that first-use initialisations inside libraries happen-before every task.
func warmUp() {
	if warmed {
		return
	}
	warmed = true
	vm := otto.New()
	vm.SetStackDepthLimit(48)
	installMulti(vm)
	setRandom(vm, 99)
	soloTask = &mtask{id: -1}
	defer func() { soloTask = nil }()
	run := func(src string) {
		defer func() { recover() }()
		vm.Run(src)
	}
	run(preludeJS + "function __spin(){}\n")
	for k := 0; k < nTxKinds; k++ {
		run("var t;" + txText(k))
	}
	for _, f := range jsFragments {
		run("try{" + f + "}catch(we){}")
	}
	rng := NewRng(12345)
	for _, p := range builtinPaths {
		for k := 0; k < 3; k++ {
			args := "(" + argPool[rng.Intn(len(argPool))] + ")"
			for j := rng.Intn(3); j > 0; j-- {
				args += ",(" + argPool[rng.Intn(len(argPool))] + ")"
			}
			run("try{rec(String(" + p + ".call(" + args + ")))}catch(we){rec('E:'+(we&&we.name))}")
		}
	}
	run(continuationJS())
	c2 := vm.Copy()
	setRandom(c2, 5)
	func() {
		defer func() { recover() }()
		c2.Run("__rb()")
		if s, err := c2.Compile("", "1+1"); err == nil {
			c2.Run(s)
		}
	}()
}

func (multiEngine) Decode(b []byte) (interface{}, error) {
	c := &MultiCase{}
	err := json.Unmarshal(b, c)
	return c, err
}

func (multiEngine) Exec(ci interface{}, st *Stats) (*Violation, interface{}, bool) {
	c := ci.(*MultiCase)
	st.Cases++
	if len(c.Tasks) == 0 || len(c.Tasks) > maxTasks {
		return nil, nil, false
	}
	if c.Procs > 0 {
		goruntime.GOMAXPROCS(c.Procs)
	}
	if c.Pool == "keep" {
		goruntime.GOMAXPROCS(1)
	}
	v := execMulti(c, st)
	if v == nil && singleCaseProcess {
		// A fresh process performs many first-use initialisations inside the
		// tasks (sync.Once, sync.Map caches in reflect/json/x-text, ...); those
		// are real happens-before edges between the tasks and can hide a race
		// that the same case shows in a warmed-up batch process. When a case is
		// executed alone (replay, minimisation) it is therefore run cold first
		// (package-level lazy state untouched) and then once more after a broad
		// warm-up on the coordinator goroutine, with new runtimes and scripts.
		warmUp()
		v = execMulti(c, st)
	}
	if v != nil {
		return v, c, true
	}
	return nil, nil, true
}

func execMulti(c *MultiCase, st *Stats) *Violation {
	// ---- setup (coordinator goroutine; happens-before the fork)
	tpl := newTemplate(c)
	shared := make([]sharedSrc, len(c.Scripts))
	hashes := make([]uint64, len(c.Scripts))
	for i, src := range c.Scripts {
		var in1, in2 interface{} = src, src
		var b1, b2 []byte
		if c.ByteSrc {
			b1, b2 = []byte(src), []byte(src)
			in1, in2 = b1, bytes.NewBuffer(b2)
		}
		s, err := tpl.Compile("", in1)
		if err != nil {
			return nil // generator produced unparsable text: cannot happen; treat as nothing to check
		}
		p, err := parser.ParseFile(nil, "", in2, 0)
		if err != nil {
			return nil
		}
		shared[i] = sharedSrc{script: s, program: p}
		hashes[i] = deepHash(s) ^ deepHash(p)
		// the caller reuses its buffers for the next file: a compiled Script or
		// parsed Program must not depend on them any more
		for k := range b1 {
			b1[k] = '#'
		}
		for k := range b2 {
			b2[k] = '#'
		}
	}
	n := len(c.Tasks)
	tasks := make([]*mtask, n)
	for i := range c.Tasks {
		tasks[i] = &mtask{id: i}
		tasks[i].vm = makeRuntime(c, &c.Tasks[i], i, tpl)
		taskTable[i] = tasks[i]
	}

	// ---- interleaved phase first (cold caches), solo baselines afterwards
	ms = msched{n: n, cur: -2, strategy: c.Strategy, pNum: uint64(c.PNum), pDen: uint64(c.PDen), stepCap: 60000}
	if ms.pDen == 0 {
		ms.pDen = 1
	}
	ms.rng.s = c.Seed
	ms.hash = 1469598103934665603
	for i := 0; i < n; i++ {
		ms.alive[i] = true
		ms.prio[i] = int(mix(c.Seed, uint64(i)) % 1000)
	}
	for i := range ms.change {
		ms.change[i] = int64(mix(c.Seed, uint64(100+i)) % 20000)
	}
	ms.burst = 1
	ms.active = true
	var wg sync.WaitGroup
	for i := 0; i < n; i++ {
		wg.Add(1)
		go func(i int) {
			defer wg.Done()
			msWaitTurn(i)
			runTask(c, &c.Tasks[i], tasks[i], tpl, shared, true)
			msDone(i)
		}(i)
	}
	// release the first task (plain store, inside a norace function)
	msStart(int(mix(c.Seed, 7) % uint64(n)))
	msWaitAll()
	wg.Wait() // real synchronisation only here: everything the tasks did happens-before what follows
	ms.active = false
	st.Runs++
	st.Steps += ms.steps
	st.ProbeN("context_switches", ms.switches)
	st.ProbeN("switches_with_2plus_mid_program", ms.midSw)
	if ms.midSw >= 2 {
		st.NonTrivial++
		st.Sig(ms.hash)
	}
	for i, nsw := range ms.pairs {
		if nsw > 0 {
			st.Probe("switch_pair_" + strconv.Itoa(i/6) + "_" + strconv.Itoa(i%6))
		}
	}
	st.Fault("ctx_switch")
	for i := range tasks {
		for _, l := range tasks[i].trace {
			if l == "ABORT abort" {
				st.Fault("program_aborted")
			} else if l == "LIVECOPY" {
				st.Fault("copy_live")
			} else if l == "LIVEFRESH" {
				st.Fault("new_runtime_live")
			}
		}
	}
	ev("multi", ms.hash, ms.steps, ms.switches)
	if ms.overrun {
		// a generated program that is simply long: nothing to compare (programs
		// are fuel-bounded, the cap only protects the batch budget)
		st.Invalid++
		st.Probe("case_discarded_step_cap")
		return nil
	}

	// ---- solo baselines: same recipes, fresh instances, one at a time
	tpl2 := newTemplate(c)
	for i := range c.Tasks {
		solo := &mtask{id: i}
		solo.vm = makeRuntime(c, &c.Tasks[i], i, tpl2)
		soloTask = solo
		runTask(c, &c.Tasks[i], solo, tpl2, shared, false)
		soloTask = nil
		st.Runs++
		for _, l := range tasks[i].trace {
			ev(l)
		}
		if len(solo.trace) != len(tasks[i].trace) {
			return viol("C20", "trace_diverged", "task %d (%s): %d trace entries interleaved, %d alone; first difference: %s", i, c.Tasks[i].Origin, len(tasks[i].trace), len(solo.trace), firstDiff(tasks[i].trace, solo.trace))
		}
		for k := range solo.trace {
			if solo.trace[k] != tasks[i].trace[k] {
				return viol("C20", "trace_diverged", "task %d (%s) entry %d: interleaved %q, alone %q", i, c.Tasks[i].Origin, k, clip(tasks[i].trace[k]), clip(solo.trace[k]))
			}
		}
	}
	for i := range shared {
		if h := deepHash(shared[i].script) ^ deepHash(shared[i].program); h != hashes[i] {
			return viol("C20", "script_modified", "shared Script/Program #%d changed structurally during execution", i)
		}
	}
	// the template must be untouched by everything its copies did
	soloTask = &mtask{id: -1}
	rb1, _ := tpl.Run("__rb()")
	rb2, _ := tpl2.Run("__rb()")
	soloTask = nil
	if rb1.String() != rb2.String() {
		return viol("C20", "template_modified", "template read-back differs after its copies ran: %s vs %s", clip(rb1.String()), clip(rb2.String()))
	}
	return nil
}

//go:norace
//go:noinline
func msStart(i int) { ms.cur = i }

func clip(s string) string {
	if len(s) > 300 {
		return s[:300] + "..."
	}
	return s
}

func firstDiff(a, b []string) string {
	for i := 0; i < len(a) && i < len(b); i++ {
		if a[i] != b[i] {
			return fmt.Sprintf("#%d %q vs %q", i, clip(a[i]), clip(b[i]))
		}
	}
	return "one is a prefix of the other"
}

// ---------------------------------------------------------------------------
// generation

// builtin surface, discovered by walking a fresh global object
var builtinPaths []string

func initBuiltinSurface() {
	vm := otto.New()
	v, err := vm.Run(`
(function(){
  var out=[], seen=[];
  function walk(o, path, depth){
    if(depth>3) return;
    for(var i=0;i<seen.length;i++) if(seen[i]===o) return;
    seen.push(o);
    var ks=Object.getOwnPropertyNames(o);
    for(var i=0;i<ks.length;i++){
      var k=ks[i], d=Object.getOwnPropertyDescriptor(o,k);
      if(!d || !('value' in d)) continue;
      var v=d.value, p=path?path+'.'+k:k;
      if(typeof v==='function'){ out.push(p); walk(v,p,depth+1); }
      else if(v && typeof v==='object'){ walk(v,p,depth+1); }
    }
  }
  walk(this,'',0);
  return out.join('\n');
})()`)
	if err != nil {
		fatalf("harness: builtin surface walk: %v", err)
	}
	for _, p := range strings.Split(v.String(), "\n") {
		// wall clock, process output and non-deterministic sources are kept out
		// of workloads (DESIGN §2.4)
		if p == "Date" || p == "Date.now" || p == "Date.UTC" || strings.HasPrefix(p, "console") || p == "eval" || p == "Function" ||
			strings.Contains(p, ".constructor") || strings.HasSuffix(p, ".caller") || p == "" {
			continue
		}
		builtinPaths = append(builtinPaths, p)
	}
	sort.Strings(builtinPaths)
	if len(builtinPaths) < 150 {
		fatalf("harness: only %d built-in functions discovered", len(builtinPaths))
	}
}

var argPool = []string{
	"undefined", "null", "true", "0", "-1", "1.5", "NaN", "7", "'abc'", "''", "'é€\U0001d11e a b'",
	"'2001-02-03T04:05:06Z'", "'Sat, 03 Feb 2001 04:05:06 GMT'", "'2001/02/03 04:05'", "[]", "[3,1,2]", "['b','a',,'c']", "{}", "{a:1,b:{c:2}}",
	"function(x){return x}", "/a(b)?/g", "new Date(981173106000)", "new Error('m')",
	"{valueOf:function(){return 2}}", "{length:2,0:'x',1:'y'}", "'a,b;c'", "'%E4%F6%FC'", "'http://x/y?z=é&w=1'", "16", "'0x1f'", "'[1,{\"a\":2}]'",
}

func genBuiltinCall(t *rapid.T) string {
	p := builtinPaths[rapid.IntRange(0, len(builtinPaths)-1).Draw(t, "bpath")]
	pick := func(l string) string { return argPool[rapid.IntRange(0, len(argPool)-1).Draw(t, l)] }
	na := rapid.IntRange(0, 3).Draw(t, "nargs")
	args := "(" + pick("recv") + ")"
	for i := 0; i < na; i++ {
		args += ",(" + pick("arg") + ")"
	}
	if strings.Contains(p, "prototype") || rapid.Bool().Draw(t, "viacall") {
		return "try{rec(String(" + p + ".call(" + args + ")))}catch(e){rec('E:'+(e&&e.name))}"
	}
	return "try{rec(String(new " + p + "(" + strings.TrimPrefix(args, "(undefined),") + ")))}catch(e){rec('E:'+(e&&e.name))}"
}

// fragments that exercise interpreter paths known to be sensitive to shared
// state (literals, error positions, arguments objects, date parsing, ...)
var jsFragments = []string{
	"rec(JSON.stringify({a:[1,{b:2}],c:'x',d:{e:[nid()]}},null,2)+JSON.stringify([1,[2,[3]]],null,'\\t')+JSON.stringify({k:1},['k'],' '))",
	"var jp=JSON.parse('{\"b\":1,\"a\":{\"z\":1,\"y\":2,\"x\":3,\"w\":4},\"c\":[{\"q\":1,\"p\":2,\"o\":3}],\"d\":4,\"e\":5}');rec(Object.keys(jp).join()+Object.keys(jp.a).join()+Object.keys(jp.c[0]).join()+JSON.stringify(jp))",
	"rec(JSON.stringify(JSON.parse('{\"k3\":1,\"k1\":2,\"k2\":{\"n\":null,\"m\":true}}',function(k,v){rec(k);return v})))",
	"rec(/a(b)?c/g.exec('xabcabc')+'|'+'aXbX'.replace(/X/g,'-'))",
	"rec(Date.parse('2001-02-03T04:05:06Z')+','+Date.parse('Sat, 03 Feb 2001 04:05:06 GMT')+','+Date.parse('2001/02/03 04:05'))",
	"rec(encodeURIComponent('éè€\U0001d11e')+encodeURI('a b/ü')+decodeURIComponent('%C3%A9'))",
	"(function(first,second){delete arguments[0];arguments[1]=9;rec(String(first)+second+arguments.length)})(1,2)",
	"try{null.x}catch(e){rec(String(e.stack||e).slice(0,120))}",
	"try{undefinedFn()}catch(e){rec(e.name+':'+e.message)}",
	"rec((function f(a,b){return a+b}).toString())",
	"rec([3,1,2].sort().join()+[1,2,3].reverse()+JSON.stringify({a:[1,{b:2}],c:'x'}))",
	"rec((1234.5678).toFixed(2)+(0.000001234).toExponential(3)+(255).toString(16)+(1e21).toString()+parseFloat('3.14abc')+parseInt('0x1f'))",
	"rec(new Date(981173106000).toISOString()+new Date(2001,1,3).getTime()+new Date(981173106000).toUTCString())",
	"rec('abc'.toUpperCase()+'Ä'.toLowerCase()+'a,b'.split(',')+' x '.trim()+'abc'.substr(1,1)+'abc'.localeCompare('abd'))",
	"rec(Math.random()+','+Math.max(1,2)+Math.pow(2,10)+Math.round(2.5))",
	"var o={};Object.defineProperty(o,'x',{get:function(){return 1},enumerable:true});rec(JSON.stringify(Object.getOwnPropertyDescriptor(o,'x'))+Object.keys(o))",
	"rec(JSON.stringify(JSON.parse('[1,{\"a\":[true,null]}]'))+JSON.stringify({d:new Date(0)}))",
	"rec(String(new RegExp('a+','gi'))+/x/.test('x')+'aaa'.match(/a/g).length+'a1b2'.search(/\\d/))",
	"rec((function(){return typeof this})()+(function(){return arguments.length})(1,2,3)+[].concat([1],[2]).length)",
	"var e=new Error('boom');rec(e.name+e.message+String(e)+Object.prototype.toString.call(e))",
	"rec(eval('1+1')+Function('a','return a*2')(4)+(0,eval)('typeof S'))",
	"rec(escape('é a')+unescape('%E9')+isNaN('x')+isFinite(1/0))",
	"with({wq:3}){rec(wq+1)}",
	"rec(String(1/3)+String(-0)+String(1e-7)+String(123456789012345680000)+Number('12e3')+(25).toPrecision(1))",
	"rec(new Date('2001-02-03T04:05:06Z').getTime()+','+new Date('Feb 3, 2001').getTime())",
	"L9:for(var q=0;q<3;q++){for(;;){continue L9}};rec(q)",
	"try{(function r(){r()})()}catch(e){rec(e.name)}",
	"rec([1,2,3].map(function(x){return x*2}).filter(function(x){return x>2}).reduce(function(a,b){return a+b},0))",
	"rec(Object.getOwnPropertyNames(Object.getPrototypeOf(function(){})).sort().join())",
	"delete T0.b;rec(Object.keys(T0).join()+JSON.stringify(T0))",
	"T0.z=1;delete T0.a;var tk=[];for(var tq in T0)tk.push(tq);rec(tk.join())",
	"delete T2.k1;rec(Object.keys(T2).join());T2.k9={v:9};rec(JSON.stringify(T2))",
	"rec(TB(3,4)+'|'+TB5(5,6)+'|'+TB6(7)+'|'+TB(8)+TB5(9,10,11))",
	"T1.splice(1,1);T1.push(T1.length);rec(T1.join())",
	"TG.x=TG.x+1;rec(TG.x)",
	"rec(TF(1,2)+TF('a','b'))",
	"rec(TC()+','+TC())",
	"TR.lastIndex=0;rec(TR.exec('t1t2')+':'+TR.lastIndex);TD.setTime(TD.getTime()+1);rec(TD.getTime());TE.message+='!';rec(String(TE))",
	"rec(TS[1]+TS[2]+TS[3]+TS.length+TS2[0]+TS.charAt(0))",
	"TSO.s=TC();rec(TSO._s+':'+TGO.g);TGO._g=TSO._s",
	"rec(TBT(1)+','+TBT(2)+','+TBG())",
	"Math.random();Math.random();",
	"if(typeof gs!=='undefined'){rec(gs.Name+gs.Count+gs.Sum(2,3)+gs.Tags.length+gs.M.k);gs.Count=gs.Count+1;rec(gs.Count)}",
	"if(typeof gs!=='undefined'){gs.Tags[0]='z';gs.M.q=5;rec(gs.Tags.join()+Object.keys(gs.M).sort().join()+JSON.stringify(gs.Tags)+gs.Name)}",
}

// genQuietProg: a program that never records a random value (for runtimes that
// keep the default random source)
func genQuietProg(t *rapid.T) MProg {
	var b strings.Builder
	b.WriteString("var t;\n")
	for n := rapid.IntRange(1, 4).Draw(t, "nq"); n > 0; n-- {
		if rapid.Bool().Draw(t, "qtx") {
			b.WriteString(txText(rapid.IntRange(0, nTxKinds-1).Draw(t, "tx")))
		} else {
			b.WriteString("Math.random();rec(TB(3,4));delete T0.c;rec(Object.keys(T0).join());")
		}
		b.WriteString("\n")
	}
	b.WriteString("Math.random();S.n;\n")
	return MProg{Src: b.String(), Route: "text"}
}

func genMultiProg(t *rapid.T, nScripts int) MProg {
	var b strings.Builder
	b.WriteString("var t;\n")
	n := rapid.IntRange(1, 6).Draw(t, "nfrag")
	for i := 0; i < n; i++ {
		switch rapid.IntRange(0, 3).Draw(t, "fragkind") {
		case 0:
			b.WriteString(txText(rapid.IntRange(0, nTxKinds-1).Draw(t, "tx")))
		case 1:
			b.WriteString(jsFragments[rapid.IntRange(0, len(jsFragments)-1).Draw(t, "frag")] + ";")
		case 2:
			b.WriteString(genBuiltinCall(t) + ";")
		default:
			g := newPG(t, rapid.IntRange(2, 12).Draw(t, "budget"), false, false)
			d, body := g.Parts()
			b.WriteString(d + body)
		}
		b.WriteString("\n")
	}
	b.WriteString("S.n;\n")
	p := MProg{Src: b.String(), Route: "text"}
	return p
}

func (multiEngine) Gen(t *rapid.T, tier string) interface{} {
	c := &MultiCase{Engine: "multisim", Race: true}
	c.Seed = rapid.Uint64().Draw(t, "seed")
	c.Strategy = rapid.IntRange(0, 3).Draw(t, "strategy")
	c.PNum = 1
	c.PDen = []int{1, 2, 4, 16, 64, 256}[rapid.IntRange(0, 5).Draw(t, "pden")]
	c.Procs = []int{1, 1, 2, 4}[rapid.IntRange(0, 3).Draw(t, "procs")]
	if poolKeep {
		c.Pool = "keep"
	}
	c.TplChan = rapid.IntRange(0, 3).Draw(t, "tplchan") == 3
	c.TplNoSeed = rapid.IntRange(0, 3).Draw(t, "tplnoseed") == 3
	c.ByteSrc = rapid.IntRange(0, 2).Draw(t, "bytesrc") == 2
	tp := genMultiProg(t, 0)
	c.Template = tp.Src
	ns := rapid.IntRange(1, 3).Draw(t, "nscripts")
	for i := 0; i < ns; i++ {
		c.Scripts = append(c.Scripts, genMultiProg(t, 0).Src)
	}
	maxTasksGen, maxProgs := 5, 3
	if tier == "thorough" {
		maxTasksGen, maxProgs = 7, 5
	}
	nt := rapid.IntRange(2, maxTasksGen).Draw(t, "ntasks")
	origins := []string{"copy", "fresh", "copycopy", "livefresh"}
	for i := 0; i < nt; i++ {
		tk := MTask{Origin: origins[rapid.IntRange(0, 3).Draw(t, "origin")]}
		np := rapid.IntRange(1, maxProgs).Draw(t, "nprogs")
		for j := 0; j < np; j++ {
			switch rapid.IntRange(0, 5).Draw(t, "route") {
			case 0, 1:
				tk.Progs = append(tk.Progs, MProg{Route: "script", Shared: rapid.IntRange(0, ns-1).Draw(t, "shared")})
			case 2:
				tk.Progs = append(tk.Progs, MProg{Route: "program", Shared: rapid.IntRange(0, ns-1).Draw(t, "shared")})
			case 3:
				p := genMultiProg(t, ns)
				p.Route = []string{"text", "reader", "compile_self"}[rapid.IntRange(0, 2).Draw(t, "troute")]
				tk.Progs = append(tk.Progs, p)
			default:
				// the same source text as a shared script, submitted as text: route independence
				tk.Progs = append(tk.Progs, MProg{Route: "text", Src: c.Scripts[rapid.IntRange(0, ns-1).Draw(t, "shared")]})
			}
		}
		if rapid.IntRange(0, 4).Draw(t, "noseed") == 4 {
			// quiet task: default random source, programs that never record a random value
			tk.NoSeed = true
			tk.Progs = nil
			for j := 0; j < np; j++ {
				tk.Progs = append(tk.Progs, genQuietProg(t))
			}
		}
		tk.Chan = rapid.IntRange(0, 3).Draw(t, "chan") == 3
		for j := range tk.Progs {
			if rapid.IntRange(0, 5).Draw(t, "abort?") == 5 {
				tk.Progs[j].Abort = rapid.IntRange(1, 300).Draw(t, "abortstep")
			}
			if rapid.IntRange(0, 3).Draw(t, "irq?") == 3 {
				for n := rapid.IntRange(1, 3).Draw(t, "nirq"); n > 0; n-- {
					tk.Progs[j].IrqAt = append(tk.Progs[j].IrqAt, rapid.IntRange(1, 200).Draw(t, "irqstep"))
				}
			}
		}
		if tk.Origin != "fresh" && tk.Origin != "livefresh" && rapid.IntRange(0, 3).Draw(t, "livecopy") == 3 {
			tk.LiveCopy = rapid.IntRange(1, np).Draw(t, "livecopyat")
		}
		c.Tasks = append(c.Tasks, tk)
	}
	return c
}
