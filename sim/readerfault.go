package main

import (
	"bytes"
	"encoding/json"
	"errors"
	"fmt"
	"io"
	"reflect"
	"sort"
	"strings"

	"github.com/robertkrimen/otto"
	"github.com/robertkrimen/otto/ast"
	"github.com/robertkrimen/otto/file"
	"github.com/robertkrimen/otto/parser"
	"pgregory.net/rapid"
)

// readerfault (C04, claimed slice): source arrives through a simulated
// io.Reader that chunks, splits runes, returns (0,nil) and (n,EOF), fails with
// an error after n bytes, or simply ends after n bytes (truncation). Oracles
// are differential against otto's own string route; accepted trees are checked
// for span and walker well-formedness. See DESIGN.md §4 C04.

var errSentinel = errors.New("simulated read error")

// the error a failing reader returns is varied: a change that special-cases
// one error kind as "end of input" must not go unnoticed
func readErrorFor(seed uint64) error {
	switch seed % 5 {
	case 0:
		return errSentinel
	case 1:
		return io.ErrUnexpectedEOF
	case 2:
		return fmt.Errorf("wrapped: %w", io.ErrUnexpectedEOF)
	case 3:
		return io.ErrClosedPipe
	default:
		return fmt.Errorf("wrapped: %w", io.EOF)
	}
}

type simReader struct {
	data     []byte
	pos      int
	rng      *Rng
	style    int // 0: 1 byte, 1: small random, 2: large random, 3: whole
	errAt    int // -1: never; otherwise fail once pos reaches errAt
	errWith  bool
	zeros    int  // remaining (0,nil) reads allowed
	dataEOF  bool // deliver the last chunk together with io.EOF
	st       *Stats
	splitRun bool
	err      error
}

func (r *simReader) Read(p []byte) (int, error) {
	if len(p) == 0 {
		return 0, nil
	}
	if r.zeros > 0 && r.rng.Intn(4) == 0 {
		r.zeros--
		r.st.Fault("rd_zero")
		return 0, nil
	}
	limit := len(r.data)
	if r.errAt >= 0 && r.errAt < limit {
		limit = r.errAt
	}
	if r.pos >= limit {
		if r.errAt >= 0 && r.pos >= r.errAt {
			r.st.Fault("rd_error")
			return 0, r.err
		}
		return 0, io.EOF
	}
	n := 1
	switch r.style {
	case 1:
		n = 1 + r.rng.Intn(7)
	case 2:
		n = 1 + r.rng.Intn(64)
	case 3:
		n = limit
	}
	if n > len(p) {
		n = len(p)
	}
	if r.pos+n > limit {
		n = limit - r.pos
	}
	copy(p, r.data[r.pos:r.pos+n])
	// did this chunk end in the middle of a UTF-8 sequence?
	if e := r.pos + n; e < len(r.data) && r.data[e]&0xC0 == 0x80 && !r.splitRun {
		r.splitRun = true
		r.st.Fault("rd_split_rune")
	}
	r.pos += n
	r.st.Fault("rd_chunk")
	if r.pos >= limit {
		if r.errAt >= 0 && r.errWith {
			r.st.Fault("rd_error")
			return n, r.err
		}
		if r.errAt < 0 && r.dataEOF {
			r.st.Fault("rd_data_eof")
			return n, io.EOF
		}
	}
	return n, nil
}

type RFCase struct {
	Engine string `json:"engine"`
	Seed   uint64 `json:"seed"`
	Text   string `json:"text"`
	// explicit single fault (replay form); Kind "" = sweep everything
	Kind  string `json:"kind,omitempty"` // cut | error | chunk | tree
	At    int    `json:"at,omitempty"`
	Style int    `json:"style,omitempty"`
	Entry string `json:"entry,omitempty"` // parse | run | compile | eval
	// Invalid: the text contains a construct that is a syntax error or parse-time
	// early error by construction; it must be rejected through every route
	Invalid bool `json:"invalid,omitempty"`
}

type rfEngine struct{}

func (rfEngine) Name() string     { return "readerfault" }
func (rfEngine) Property() string { return "C04" }
func (rfEngine) Init()            { otto.VerifStep = rfHook }
func (rfEngine) Decode(b []byte) (interface{}, error) {
	c := &RFCase{}
	err := json.Unmarshal(b, c)
	return c, err
}

var rfSteps int
var rfActive bool

func rfHook(o *otto.Otto, kind otto.VerifStepKind, node interface{}) {
	if !rfActive {
		return
	}
	rfSteps++
	if rfSteps > 20000 {
		panic(harnessAbort{"step cap"})
	}
}

type parseOut struct {
	panicked string
	errStr   string
	errs     parser.ErrorList
	plainErr error
	prog     *ast.Program
	hash     uint64
}

func doParse(src interface{}) (out parseOut) { return doParseFS(src, nil) }

// doParseFS parses with an optional FileSet (which shifts every file.Idx by
// the set's current base).
func doParseFS(src interface{}, fs *file.FileSet) (out parseOut) {
	return doParseMode(src, fs, 0)
}

func doParseMode(src interface{}, fs *file.FileSet, mode parser.Mode) (out parseOut) {
	defer func() {
		if x := recover(); x != nil {
			out.panicked = fmt.Sprintf("%T: %v", x, x)
		}
	}()
	p, err := parser.ParseFile(fs, "", src, mode)
	out.prog = p
	if err != nil {
		out.errStr = err.Error()
		switch el := err.(type) {
		case *parser.ErrorList:
			out.errs = *el
		default:
			out.plainErr = err
		}
	}
	if p != nil && err == nil {
		out.hash = deepHash(p)
	}
	return
}

// doParseFunction feeds a text to parser.ParseFunction as parameter list or body.
func doParseFunction(params, body string) (fn *ast.FunctionLiteral, errStr, panicked string) {
	defer func() {
		if x := recover(); x != nil {
			panicked = fmt.Sprintf("%T: %v", x, x)
		}
	}()
	f, err := parser.ParseFunction(params, body)
	if err != nil {
		errStr = err.Error()
	}
	return f, errStr, ""
}

type runOut struct {
	panicked string
	val, err string
	trace    []string
	state    string
}

const rfStateJS = `Object.getOwnPropertyNames(this).join()+'|'+__rb()`

func doRun(entry string, src interface{}) (out runOut) {
	vm := otto.New()
	vm.SetStackDepthLimit(200)
	installMulti(vm)
	setRandom(vm, 1)
	t := &mtask{id: -1}
	soloTask = t
	defer func() { soloTask = nil }()
	if _, err := vm.Run(preludeJS); err != nil {
		fatalf("harness: prelude: %v", err)
	}
	before, _ := vm.Run(rfStateJS)
	rfSteps, rfActive = 0, true
	func() {
		defer func() {
			rfActive = false
			if x := recover(); x != nil {
				if _, ok := x.(harnessAbort); ok {
					out.val = "ABORTED"
					return
				}
				out.panicked = fmt.Sprintf("%T: %v", x, x)
			}
		}()
		var v otto.Value
		var err error
		switch entry {
		case "run":
			v, err = vm.Run(src)
		case "eval":
			v, err = vm.Eval(src)
		case "compile":
			var s *otto.Script
			s, err = vm.Compile("", src)
			if err == nil {
				v, err = vm.Run(s)
			}
		}
		if err != nil {
			out.err = err.Error()
		} else {
			out.val = valStr(v)
		}
	}()
	out.trace = t.trace
	after, _ := vm.Run(rfStateJS)
	if before.String() == after.String() {
		out.state = "unchanged"
	} else {
		out.state = "changed"
	}
	return
}

// ---------------------------------------------------------------------------
// tree well-formedness

var nodeIface = reflect.TypeOf((*ast.Node)(nil)).Elem()

type nodeInfo struct {
	n      ast.Node
	parent ast.Node
}

// reflectNodes enumerates all non-nil nodes of a tree independently of
// ast.Walk, with their parents.
func reflectNodes(root ast.Node) []nodeInfo {
	var out []nodeInfo
	seen := map[uintptr]bool{}
	var visitVal func(v reflect.Value, parent ast.Node)
	var visitNode func(n ast.Node, parent ast.Node)
	visitNode = func(n ast.Node, parent ast.Node) {
		rv := reflect.ValueOf(n)
		if !rv.IsValid() || (rv.Kind() == reflect.Ptr && rv.IsNil()) {
			return
		}
		if rv.Kind() == reflect.Ptr {
			if seen[rv.Pointer()] {
				return
			}
			seen[rv.Pointer()] = true
		}
		out = append(out, nodeInfo{n, parent})
		e := rv
		if e.Kind() == reflect.Ptr {
			e = e.Elem()
		}
		if e.Kind() == reflect.Struct {
			for i := 0; i < e.NumField(); i++ {
				if e.Type().Field(i).PkgPath != "" {
					continue
				}
				visitVal(e.Field(i), n)
			}
		}
	}
	visitVal = func(v reflect.Value, parent ast.Node) {
		switch v.Kind() {
		case reflect.Interface, reflect.Ptr:
			if v.IsNil() {
				return
			}
			if v.Type().Implements(nodeIface) {
				if n, ok := v.Interface().(ast.Node); ok {
					visitNode(n, parent)
				}
				return
			}
			visitVal(v.Elem(), parent)
		case reflect.Slice:
			for i := 0; i < v.Len(); i++ {
				visitVal(v.Index(i), parent)
			}
		case reflect.Struct:
			// by-value structs that are nodes themselves (e.g. VariableStatement lists hold interfaces; CaseStatement etc. are pointers)
			if v.CanAddr() && v.Addr().Type().Implements(nodeIface) {
				if n, ok := v.Addr().Interface().(ast.Node); ok {
					visitNode(n, parent)
					return
				}
			}
			for i := 0; i < v.NumField(); i++ {
				if v.Type().Field(i).PkgPath != "" {
					continue
				}
				visitVal(v.Field(i), parent)
			}
		}
	}
	visitNode(root, nil)
	return out
}

type countVisitor struct {
	enter, exit map[ast.Node]int
	nilSeen     string
}

func (c *countVisitor) Enter(n ast.Node) ast.Visitor {
	rv := reflect.ValueOf(n)
	if n == nil || (rv.Kind() == reflect.Ptr && rv.IsNil()) {
		if c.nilSeen == "" {
			c.nilSeen = fmt.Sprintf("%T", n)
		}
		return nil
	}
	c.enter[n]++
	return c
}

func (c *countVisitor) Exit(n ast.Node) {
	rv := reflect.ValueOf(n)
	if n == nil || (rv.Kind() == reflect.Ptr && rv.IsNil()) {
		return
	}
	c.exit[n]++
}

func safeIdx(n ast.Node) (i0, i1 file.Idx, p string) {
	defer func() {
		if x := recover(); x != nil {
			p = fmt.Sprintf("%v", x)
		}
	}()
	i0 = n.Idx0()
	i1 = n.Idx1()
	return
}

// checkTree is oracle 4. It returns (class, key, detail).
func checkTree(prog *ast.Program, srcLen int) (string, string, string) {
	return checkTreeBase(prog, srcLen, 1)
}

func checkTreeBase(prog *ast.Program, srcLen int, base int) (string, string, string) {
	nodes := reflectNodes(prog)
	type span struct{ a, b file.Idx }
	spans := map[ast.Node]span{}
	for _, ni := range nodes {
		switch ni.n.(type) {
		case *ast.BadExpression, *ast.BadStatement:
			// the placeholder for text the parser could not make sense of: a tree
			// returned without an error must not contain one
			return "bad_node_in_accepted_tree", fmt.Sprintf("bad-node %T", ni.n), fmt.Sprintf("the tree of an accepted source contains a %T (no error was reported)", ni.n)
		}
	}
	for _, ni := range nodes {
		i0, i1, p := safeIdx(ni.n)
		if p != "" {
			return "span_panic", fmt.Sprintf("span-panic %T", ni.n), fmt.Sprintf("Idx0/Idx1 of %T panicked: %s", ni.n, p)
		}
		spans[ni.n] = span{i0, i1}
		if int(i0) < base || int(i1) > srcLen+base || i0 > i1 {
			return "span_outside_file", fmt.Sprintf("span-range %T", ni.n), fmt.Sprintf("%T reports span [%d,%d) in a file of %d bytes (valid %d..%d)", ni.n, i0, i1, srcLen, base, srcLen+base)
		}
	}
	for _, ni := range nodes {
		if ni.parent == nil {
			continue
		}
		ps, cs := spans[ni.parent], spans[ni.n]
		if cs.a < ps.a || cs.b > ps.b {
			return "span_outside_parent", fmt.Sprintf("span-parent %T in %T", ni.n, ni.parent), fmt.Sprintf("%T [%d,%d) is not within its parent %T [%d,%d)", ni.n, cs.a, cs.b, ni.parent, ps.a, ps.b)
		}
	}
	cv := &countVisitor{enter: map[ast.Node]int{}, exit: map[ast.Node]int{}}
	var wp string
	func() {
		defer func() {
			if x := recover(); x != nil {
				wp = fmt.Sprintf("%v", x)
			}
		}()
		ast.Walk(cv, prog)
	}()
	if wp != "" {
		return "walk_panic", "walk-panic", "ast.Walk panicked: " + wp
	}
	if cv.nilSeen != "" {
		return "walk_nil_node", "walk-nil " + cv.nilSeen, "ast.Walk handed a nil node of type " + cv.nilSeen + " to the visitor"
	}
	for _, ni := range nodes {
		if cv.enter[ni.n] != 1 || cv.exit[ni.n] != 1 {
			return "walk_count", fmt.Sprintf("walk-count %T", ni.n), fmt.Sprintf("%T entered %d times, exited %d times (want 1/1)", ni.n, cv.enter[ni.n], cv.exit[ni.n])
		}
	}
	if len(cv.enter) != len(nodes) {
		return "walk_count", "walk-extra", fmt.Sprintf("walker entered %d distinct nodes, the tree has %d", len(cv.enter), len(nodes))
	}
	// a visitor that prunes (Enter returns nil) and one that hands the children
	// to another visitor: as documented, a pruned node gets no Exit and none of
	// its descendants is entered; otherwise Exit goes to the visitor Enter returned
	parentOf := map[ast.Node]ast.Node{}
	for _, ni := range nodes {
		parentOf[ni.n] = ni.parent
	}
	pl := &pruneLog{pruned: map[ast.Node]bool{}}
	wp = ""
	func() {
		defer func() {
			if x := recover(); x != nil {
				wp = fmt.Sprintf("%v", x)
			}
		}()
		ast.Walk(&pruneVisitor{id: 0, log: pl}, prog)
	}()
	if wp != "" {
		return "walk_panic", "walk-panic", "ast.Walk with a pruning visitor panicked: " + wp
	}
	if pl.bad == "" && len(pl.stack) != 0 {
		pl.bad = fmt.Sprintf("%d nodes entered by a visitor that went on never got their Exit", len(pl.stack))
	}
	for n := range pl.pruned {
		_ = n
	}
	if pl.bad == "" {
		for _, e := range pl.entered {
			for p := parentOf[e]; p != nil; p = parentOf[p] {
				if pl.pruned[p] {
					pl.bad = fmt.Sprintf("%T was entered although its ancestor %T had been pruned (Enter returned nil)", e, p)
					break
				}
			}
			if pl.bad != "" {
				break
			}
		}
	}
	if pl.bad != "" {
		return "walk_protocol", "walk-protocol", pl.bad
	}
	return "", "", ""
}

type pruneLog struct {
	n       int
	stack   []pruneFrame
	pruned  map[ast.Node]bool
	entered []ast.Node
	bad     string
}

type pruneFrame struct {
	node ast.Node
	want int // id of the visitor that has to receive Exit
}

type pruneVisitor struct {
	id  int
	log *pruneLog
}

func (v *pruneVisitor) Enter(n ast.Node) ast.Visitor {
	l := v.log
	l.n++
	l.entered = append(l.entered, n)
	switch l.n % 3 {
	case 0:
		if l.n > 3 { // never the root
			l.pruned[n] = true
			return nil
		}
		fallthrough
	case 1:
		next := &pruneVisitor{id: l.n, log: l}
		l.stack = append(l.stack, pruneFrame{n, next.id})
		return next
	}
	l.stack = append(l.stack, pruneFrame{n, v.id})
	return v
}

func (v *pruneVisitor) Exit(n ast.Node) {
	l := v.log
	if l.bad != "" {
		return
	}
	if l.pruned[n] {
		l.bad = fmt.Sprintf("Exit was called for a %T whose Enter had returned nil", n)
		return
	}
	if len(l.stack) == 0 || l.stack[len(l.stack)-1].node != n {
		l.bad = fmt.Sprintf("Exit of %T does not match the innermost entered node", n)
		return
	}
	if want := l.stack[len(l.stack)-1].want; want != v.id {
		l.bad = fmt.Sprintf("Exit of %T went to visitor %d, Enter had returned visitor %d", n, v.id, want)
		return
	}
	l.stack = l.stack[:len(l.stack)-1]
}

// ---------------------------------------------------------------------------

func (e rfEngine) Exec(ci interface{}, st *Stats) (*Violation, interface{}, bool) {
	c := ci.(*RFCase)
	st.Cases++
	T := []byte(c.Text)
	rng := NewRng(c.Seed)
	mk := func(kind string, at, style int, entry string) *RFCase {
		return &RFCase{Engine: "readerfault", Seed: c.Seed, Text: c.Text, Kind: kind, At: at, Style: style, Entry: entry}
	}
	fail := func(class, key string, rc *RFCase, f string, a ...interface{}) (*Violation, interface{}, bool) {
		v := viol("C04", class, f, a...)
		v.Key = key
		return v, rc, true
	}
	newReader := func(data []byte, style, errAt int, seed uint64) *simReader {
		r := &simReader{data: data, rng: NewRng(seed), style: style, errAt: errAt, st: st}
		r.zeros = int(seed % 3)
		r.dataEOF = seed%2 == 0
		r.errWith = seed%4 == 1
		r.err = readErrorFor(seed / 7)
		return r
	}

	// --- one cut point
	doCut := func(n, style int) (*Violation, interface{}, bool) {
		st.Runs++
		st.Fault("rd_eof_truncation")
		prefix := T[:n]
		ref := doParse(string(prefix))
		got := doParse(newReader(prefix, style, -1, c.Seed+uint64(n)))
		rc := mk("cut", n, style, "parse")
		ev("cut", n, got.errStr, got.hash, got.panicked)
		if ref.panicked != "" {
			return fail("parse_panic", "parse-panic", rc, "parser panicked on the %d-byte prefix: %s", n, ref.panicked)
		}
		if got.panicked != "" {
			return fail("parse_panic", "parse-panic", rc, "parser panicked reading the %d-byte prefix from a reader: %s", n, got.panicked)
		}
		if ref.errStr != got.errStr || ref.hash != got.hash {
			return fail("reader_differs_from_string", "", rc, "prefix of %d bytes: via reader err=%q tree=%x, as string err=%q tree=%x", n, clip(got.errStr), got.hash, clip(ref.errStr), ref.hash)
		}
		if n > 0 && n < len(T) {
			st.NonTrivial++
		}
		// the same prefix as the body and as the parameter list of ParseFunction:
		// an accepted body must also be accepted as a program wrapped in a function
		if fn, ferr, fp := doParseFunction("a,b", string(prefix)); fp != "" {
			return fail("parse_panic", "parse-panic", rc, "ParseFunction panicked with the %d-byte prefix as body: %s", n, fp)
		} else if ferr == "" && fn != nil {
			wrapped := doParse("(function(a,b){\n" + string(prefix) + "\n})")
			if wrapped.panicked == "" && wrapped.errStr != "" {
				return fail("parsefunction_accepts_rejected_body", "", rc, "ParseFunction accepts the %d-byte prefix as a function body, the parser rejects the same text inside a function expression: %s", n, clip(wrapped.errStr))
			}
			st.Probe("parsefunction_body_accepted")
		}
		// a parameter text is a parameter list on its own: it cannot lend a comment
		// to the wrapper so that an ill-formed body goes through
		for _, inj := range [][2]string{{string(prefix) + " //", "){ return 1"}, {string(prefix) + " /*", "*/){ return 1"}, {"a //", string(prefix) + "\n){ return 1"}} {
			if n%8 != 0 {
				break // every eighth cut point
			}
			fn, ferr, fp := doParseFunction(inj[0], inj[1])
			if fp != "" {
				return fail("parse_panic", "parse-panic", rc, "ParseFunction(%q, %q) panicked: %s", clip(inj[0]), clip(inj[1]), fp)
			}
			if ferr == "" && fn != nil {
				body := doParse("(function(){\n" + inj[1] + "\n})")
				if body.errStr != "" {
					return fail("parsefunction_accepts_rejected_body", "", rc, "ParseFunction(%q, %q) returns a function although the body alone is rejected (%s): the parameter text comments the wrapper out", clip(inj[0]), clip(inj[1]), clip(body.errStr))
				}
			}
		}
		if n%8 == 0 {
			for _, inj := range [][2]string{{string(prefix) + ") { /*", "/* x */ return 1"}, {string(prefix) + "){ //", "return 1"}} {
				fn, ferr, _ := doParseFunction(inj[0], inj[1])
				if ferr == "" && fn != nil {
					if alone := doParse("(function(" + inj[0] + "\n){})"); alone.errStr != "" {
						return fail("parsefunction_accepts_rejected_parameters", "", rc, "ParseFunction(%q, %q) returns a function although the parameter text alone is rejected (%s)", clip(inj[0]), clip(inj[1]), clip(alone.errStr))
					}
				}
			}
		}
		if _, _, fp := doParseFunction(string(prefix), "return 1"); fp != "" {
			return fail("parse_panic", "parse-panic", rc, "ParseFunction panicked with the %d-byte prefix as parameter list: %s", n, fp)
		}
		// the same prefix with comments recorded: same verdict, same errors, a
		// well-formed tree, and every recorded comment lies inside the input
		withC := doParseMode(string(prefix), nil, parser.StoreComments)
		if withC.panicked != "" {
			return fail("parse_panic", "parse-panic", rc, "parser panicked on the %d-byte prefix in StoreComments mode: %s", n, withC.panicked)
		}
		if withC.errStr != ref.errStr {
			return fail("comment_mode_changes_verdict", "", rc, "prefix of %d bytes: errors %q normally, %q in StoreComments mode", n, clip(ref.errStr), clip(withC.errStr))
		}
		if withC.errStr == "" && withC.prog != nil {
			if cl, key, d := checkTree(withC.prog, n); cl != "" {
				rc.Kind = "tree"
				return fail(cl, key, rc, "accepted %d-byte prefix parsed in StoreComments mode: %s", n, d)
			}
			for _, cs := range withC.prog.Comments {
				for _, cm := range cs {
					if cm == nil || int(cm.Begin) < 1 || int(cm.Begin) > n+1 {
						return fail("comment_outside_input", "", rc, "a recorded comment begins at index %v in an input of %d bytes", cm, n)
					}
				}
			}
			st.Probe("comment_mode_trees_checked")
		}
		// the same prefix as the second file of a FileSet: positions are
		// file-relative and must not change
		fs := &file.FileSet{}
		base := fs.AddFile("earlier.js", "var earlier = 1; // some earlier file in the set\n")
		base = fs.AddFile("probe", string(prefix)) // what ParseFile will add next gets the base after this one
		withFS := doParseFS(string(prefix), fs)
		if withFS.panicked != "" {
			return fail("parse_panic", "parse-panic", rc, "parser panicked on the %d-byte prefix when given a FileSet that already holds files: %s", n, withFS.panicked)
		}
		if withFS.errStr != ref.errStr {
			return fail("error_position_depends_on_fileset", "", rc, "prefix of %d bytes: errors %q without a FileSet, %q as a later file of a FileSet", n, clip(ref.errStr), clip(withFS.errStr))
		}
		for i, pe := range withFS.errs {
			if i < len(ref.errs) && pe.Position != ref.errs[i].Position {
				return fail("error_position_depends_on_fileset", "", rc, "error %d position %+v without a FileSet, %+v in a FileSet", i, ref.errs[i].Position, pe.Position)
			}
		}
		if withFS.errStr == "" && withFS.prog != nil && withFS.prog.File != nil && len(withFS.prog.Body) > 0 {
			// an index inside this file must resolve to this file, not to a neighbour
			i0 := withFS.prog.Idx0()
			if f := fs.File(i0); f == nil || f.Base() != withFS.prog.File.Base() {
				got := "no file"
				if f != nil {
					got = fmt.Sprintf("the file with base %d", f.Base())
				}
				return fail("fileset_lookup_wrong_file", "", rc, "index %d (first node of the file with base %d) resolves through FileSet.File to %s", i0, withFS.prog.File.Base(), got)
			}
		}
		if withFS.errStr == "" && withFS.prog != nil && withFS.prog.File != nil {
			if cl, key, d := checkTreeBase(withFS.prog, n, withFS.prog.File.Base()); cl != "" {
				rc.Kind = "tree"
				return fail(cl, key, rc, "accepted %d-byte prefix parsed as a later file of a FileSet: %s", n, d)
			}
		}
		_ = base
		for _, pe := range ref.errs {
			if pe.Position.Offset < 0 || pe.Position.Offset > n {
				return fail("error_position_outside_input", "", rc, "error %q at offset %d for an input of %d bytes", pe.Message, pe.Position.Offset, n)
			}
		}
		if ref.errStr == "" && ref.prog != nil {
			st.Probe("prefix_accepted")
			if d, ok := bracketDepth(prefix); ok && d != 0 {
				return fail("unbalanced_source_accepted", "", rc, "the %d-byte prefix leaves %d bracket(s) open (or closes too many) yet the parser accepted it", n, d)
			}
			if cl, key, d := checkTree(ref.prog, n); cl != "" {
				rc.Kind = "tree"
				return fail(cl, key, rc, "accepted %d-byte prefix: %s", n, d)
			}
			st.Sig(hashStr("tree", fmt.Sprint(ref.hash)))
		} else {
			st.Probe("prefix_rejected")
			st.Sig(hashStr("rej", ref.errStr))
		}
		return nil, nil, true
	}

	// --- run-level check at a cut: rejected => no side effect; accepted => reader == string
	doRunCut := func(n, style int, entry string) (*Violation, interface{}, bool) {
		st.Runs++
		prefix := T[:n]
		ref := doParse(string(prefix))
		rc := mk("cut", n, style, entry)
		got := doRun(entry, newReader(prefix, style, -1, c.Seed+uint64(n)*3))
		ev("runcut", n, entry, got.val, got.err, got.panicked, len(got.trace), got.state)
		if got.panicked != "" {
			if ref.errStr != "" {
				return fail("run_panic_on_rejected_source", "", rc, "%s panicked on a rejected %d-byte prefix: %s", entry, n, got.panicked)
			}
			st.Probe("accepted_prefix_panics_at_run_time") // C02's business; must only match the string route
		}
		if ref.errStr != "" {
			if got.err == "" {
				return fail("rejected_source_ran", "", rc, "%s returned no error for a %d-byte prefix the parser rejects (%s)", entry, n, clip(ref.errStr))
			}
			if len(got.trace) != 0 || got.state != "unchanged" {
				return fail("rejected_source_side_effect", "", rc, "%s of a rejected %d-byte prefix made %d host calls, global state %s", entry, n, len(got.trace), got.state)
			}
			return nil, nil, true
		}
		want := doRun(entry, string(prefix))
		if got.val != want.val || got.err != want.err || got.panicked != want.panicked || strings.Join(got.trace, "\n") != strings.Join(want.trace, "\n") {
			return fail("reader_differs_from_string", "", rc, "%s of the accepted %d-byte prefix: via reader (%s,%q), as string (%s,%q)", entry, n, got.val, clip(got.err), want.val, clip(want.err))
		}
		return nil, nil, true
	}

	// --- read error after n bytes
	doErr := func(n, style int, entry string) (*Violation, interface{}, bool) {
		st.Runs++
		st.NonTrivial++
		rc := mk("error", n, style, entry)
		rd := newReader(T, style, n, c.Seed+uint64(n)*7)
		if entry == "parse" {
			got := doParse(rd)
			if got.panicked != "" {
				return fail("parse_panic", "parse-panic", rc, "parser panicked when the reader failed after %d bytes: %s", n, got.panicked)
			}
			if got.errStr == "" {
				return fail("read_error_swallowed", "", rc, "reader failed after %d bytes but ParseFile returned no error", n)
			}
			if got.plainErr == nil || !errors.Is(got.plainErr, errSentinel) {
				st.Probe("read_error_not_passed_through_verbatim")
			}
			return nil, nil, true
		}
		got := doRun(entry, rd)
		if got.panicked != "" {
			return fail("run_panic_on_read_error", "", rc, "%s panicked when the reader failed after %d bytes: %s", entry, n, got.panicked)
		}
		if got.err == "" {
			return fail("read_error_swallowed", "", rc, "reader failed after %d bytes but %s returned no error (value %s)", n, entry, got.val)
		}
		if len(got.trace) != 0 || got.state != "unchanged" {
			return fail("partial_source_evaluated", "", rc, "reader failed after %d bytes yet %s made %d host calls, global state %s", n, entry, len(got.trace), got.state)
		}
		return nil, nil, true
	}

	// --- chunked delivery of the whole text
	doChunk := func(style int, entry string, seed uint64) (*Violation, interface{}, bool) {
		st.Runs++
		rc := mk("chunk", int(seed%1000), style, entry)
		if entry == "parse" {
			ref := doParse(c.Text)
			for _, src := range []interface{}{newReader(T, style, -1, seed), T, bytes.NewBuffer(append([]byte(nil), T...))} {
				got := doParse(src)
				if got.panicked != "" {
					return fail("parse_panic", "parse-panic", rc, "parser panicked (%T source): %s", src, got.panicked)
				}
				if got.errStr != ref.errStr || got.hash != ref.hash {
					return fail("reader_differs_from_string", "", rc, "whole text via %T: err=%q tree=%x; as string err=%q tree=%x", src, clip(got.errStr), got.hash, clip(ref.errStr), ref.hash)
				}
			}
			return nil, nil, true
		}
		want := doRun(entry, c.Text)
		got := doRun(entry, newReader(T, style, -1, seed))
		if got.val != want.val || got.err != want.err || got.panicked != want.panicked || strings.Join(got.trace, "\n") != strings.Join(want.trace, "\n") {
			return fail("reader_differs_from_string", "", rc, "%s of the whole text: via reader (%s,%q,%d calls), as string (%s,%q,%d calls)", entry, got.val, clip(got.err), len(got.trace), want.val, clip(want.err), len(want.trace))
		}
		return nil, nil, true
	}

	doInvalid := func() (*Violation, interface{}, bool) {
		rc := mk("invalid", len(T), 1, "parse")
		rc.Invalid = true
		st.Fault("invalid_by_construction")
		for _, src := range []interface{}{c.Text, newReader(T, 1, -1, c.Seed)} {
			st.Runs++
			got := doParse(src)
			if got.panicked != "" {
				return fail("parse_panic", "parse-panic", rc, "parser panicked on a text that is invalid by construction: %s", got.panicked)
			}
			if got.errStr == "" {
				return fail("invalid_source_accepted", "", rc, "a text containing a construct that ES5 forbids at parse time was accepted (%T source)", src)
			}
		}
		for _, entry := range []string{"run", "compile", "eval"} {
			st.Runs++
			got := doRun(entry, newReader(T, 2, -1, c.Seed+3))
			if got.panicked != "" {
				return fail("run_panic_on_rejected_source", "", rc, "%s panicked on a text that is invalid by construction: %s", entry, got.panicked)
			}
			if got.err == "" {
				return fail("rejected_source_ran", "", rc, "%s returned no error for a text that is invalid by construction", entry)
			}
			if len(got.trace) != 0 || got.state != "unchanged" {
				return fail("rejected_source_side_effect", "", rc, "%s of a text that is invalid by construction made %d host calls, global state %s", entry, len(got.trace), got.state)
			}
		}
		st.NonTrivial++
		return nil, nil, true
	}

	switch c.Kind {
	case "invalid":
		return doInvalid()
	case "valid":
		st.Runs++
		if ref := doParse(c.Text); ref.panicked == "" && ref.errStr != "" {
			return fail("valid_source_rejected", "valid-rejected", c, "a text made of valid ES5 constructs only was rejected: %s", clip(ref.errStr))
		}
		return nil, nil, true
	case "cut", "tree":
		if c.Entry == "" || c.Entry == "parse" {
			return doCut(min(c.At, len(T)), c.Style)
		}
		return doRunCut(min(c.At, len(T)), c.Style, c.Entry)
	case "error":
		return doErr(min(c.At, len(T)), c.Style, c.Entry)
	case "chunk":
		return doChunk(c.Style, c.Entry, c.Seed+uint64(c.At))
	}

	if c.Invalid {
		if v, rc, _ := doInvalid(); v != nil {
			return v, rc, true
		}
	}
	// sweep: every cut point (exhaustive per text), sampled run-level checks
	for n := 0; n <= len(T); n++ {
		if v, rc, _ := doCut(n, rng.Intn(4)); v != nil {
			return v, rc, true
		}
	}
	st.Exhaustive++
	entries := []string{"run", "compile", "eval"}
	// run-level: token-ish boundaries and a sample
	var pts []int
	for n := 0; n <= len(T); n++ {
		if n == len(T) || T[n] == ';' || T[n] == '}' || T[n] == '\n' || rng.Intn(16) == 0 {
			pts = append(pts, n)
		}
	}
	sort.Ints(pts)
	for _, n := range pts {
		if v, rc, _ := doRunCut(n, rng.Intn(4), entries[rng.Intn(3)]); v != nil {
			return v, rc, true
		}
	}
	for n := 0; n <= len(T); n++ {
		if n%4 == 0 || n == len(T) || T[min(n, len(T)-1)] == ';' {
			if v, rc, _ := doErr(n, rng.Intn(4), "parse"); v != nil {
				return v, rc, true
			}
		}
		if n%16 == 0 {
			if v, rc, _ := doErr(n, rng.Intn(4), entries[rng.Intn(3)]); v != nil {
				return v, rc, true
			}
		}
	}
	for style := 0; style < 4; style++ {
		if v, rc, _ := doChunk(style, "parse", c.Seed+uint64(style)); v != nil {
			return v, rc, true
		}
		if v, rc, _ := doChunk(style, entries[style%3], c.Seed+uint64(style)*5); v != nil {
			return v, rc, true
		}
	}
	return nil, nil, true
}

// bracketDepth returns the net ( [ { depth of a text outside string literals.
// It only answers (ok) for texts without '/', which therefore contain no
// comment, regular expression literal or division to mis-tokenise.
func bracketDepth(b []byte) (int, bool) {
	if bytes.IndexByte(b, '/') >= 0 {
		return 0, false
	}
	depth := 0
	var q byte
	for i := 0; i < len(b); i++ {
		ch := b[i]
		if q != 0 {
			if ch == '\\' {
				i++
			} else if ch == q {
				q = 0
			} else if ch == '\n' {
				return 0, false
			}
			continue
		}
		switch ch {
		case '\'', '"':
			q = ch
		case '(', '[', '{':
			depth++
		case ')', ']', '}':
			depth--
			if depth < 0 {
				return depth, true
			}
		}
	}
	if q != 0 {
		return 0, false
	}
	return depth, true
}

func min(a, b int) int {
	if a < b {
		return a
	}
	return b
}

// ---------------------------------------------------------------------------

var syntaxZoo = []string{
	"var re=/a[/]b\\/c/gi, s='q\\'\\n\\u00e9\\x41', d=\"d\\\"q\";",
	"var n=[0x1F,1e3,.5,5.,0.5e-3,017,1E+2];",
	"var o={a:1,'b c':2,3:4,get g(){return 1},set g(v){},if:5,true:6};",
	"x=a?b:c?d:e;y=(1,2,3);z=!~-+void typeof delete o.a;",
	"lbl:for(var i=0,j=1;i<2;i++,j--){if(i in o)continue lbl;else break lbl}",
	"switch(x){case 1:case 2:x++;break;default:;case 3:{}}",
	"try{throw new Error('é€𝄞')}catch(e){}finally{}",
	"do x++\nwhile(x<3)\ny=x\n++z\n",
	"function f(a,b){'use strict';return\na+b}",
	"var g=function h(){return h}, k=new f(1,2), m=new f, p=f.call(null,1)[0];",
	"with(o){a=1}debugger;",
	"if(a)b;else if(c)d;else{e}",
	"for(var q in o);for(q in o){}for(;;){break}while(0);",
	"a=b+=c-=d*=e/=f%=g<<=h>>=i>>>=j&=k|=l^=m;",
	"a=b===c!==d==e!=f<g>h<=i>=j instanceof k;",
	"a=b<<1>>2>>>3&4|5^6&&7||8;",
	"/* block\ncomment */ a=1 // line\n<!-- html\n",
	"a=[,1,,2,];b=[];c={};d=(function(){}).call();",
	"x=a\n(b)\ny=c\n[d]\n",
	"var üml=1, $=2, _=3, \\u0061b=4;",
	"x=1;;;{;}{}",
	"throw a\n",
	"a.b.c['d'].e(f)(g)[h]=new a.b.c(d)",
	"i++\nj--\n++i\n--j",
	"x='é€𝄞 漢字';",
	"y=/=a/;z=/=/g.test('=');w=a/=2;",
	"r=[/=x/,/[=]/,/\\=/i];if(/=/.test(s))t=1;",
	"q=a/b/c;q/=d;q=(a)/2/e;q=a++/2;q=b[0]/2/f;",
	"s='a\\\nb';t=\"\\0\\b\\f\\v\\t\\r\";",
	"u=0.0;v=0;w=00;x=1.;y=.0e0;z=0X1f;",
	"a=b?function(){}:function c(){};(function(){})();!function(){}();new function(){};",
	"a={'x':1,\"y\":2,0:3,1.5:4,0x10:5,null:6,function:7,get:8,set:9,get get(){return 1},set set(v){}};",
	"if(a){}else{}\nfor(;;)break;\nwhile(a)continue;\nl:{break l}",
	"a=b\n++c;d=e\n--f;g=h\n/i/j;",
	"var a\nvar b=1,c\nreturn_=1\n",
	"a:for(var i=0;i<2;i++){if(i)continue a;(function(){a:{}})()}b:for(;;){(function(){b:for(;;){continue b}});break b}",
	"x=/a/\ny=1\nz=/b/g\nw=2;v=/c/\n;u=[/d/\n,/e/i\n]",
	"x=a.if\ny=a.new\nz=a.typeof\n++x\nw=o.in\n[1].length",
	"for(var i=a?b in c:d;;)break;for(i=a?(b in c):d,j=e?f in g?1:2:3;;)break;",
	"a=1/*\n*/b=2\nc=3/* x */\nd=4/*\r\n*/++a\nreturn_=5/**/\n",
	"a?b:c=1;a&&b++;(y)=1;(a.b)++;x=y=z;(a[b])+=1;for(a.b in o);for(a[0] in o);for((c) in o);",
	"s='a\\\rb';t=\"c\\\r\";u='\\\r\n';v='d\\\n';w='\\\u2028e\\\u2029';x='\\\r\\\r'+\"\\\n\\\n\";",
	"function dp(a,b,a){return a+b}dp(1,2,3);(function(x,x){return x})(1,2);var o={p:1,p:2,'p':3};function arguments(){}",
	"for(var i=f(k in o),j=o[k in o];i<1;i++);for(x=(k in o);;)break;for(var q=[k in o];;)break;for(var r=function(){return k in o};;)break;for(var s={p:k in o};;)break;",
	"var b٣={},é={},e\u0301x=1,a‿b=2,ⅷ=3;b٣.x٣=1;é.e\u0301=b٣.x٣;é.a‿b=b٣.ⅷ;",
	"o.\\u0061b=1;o.a\\u0062c=2;o.if=o.new.typeof;o.$_=o._$9;",
}

// constructs that ES5 rejects at parse time (syntax errors and the early errors
// the property lists); complete statements can stand between two valid programs
var invalidAnywhere = []string{
	"break;", "continue;", "return 1;", "for(;;){break nolabel;}", "for(;;){continue nolabel;}", "L1:L1:;", "X:{(function(){break X;})()}",
	"Y:{continue Y;}", "1=2;", "a+b=c;", "++1;", "try{}", "var if=1;", "var v\\u0061r=1;", "function if(){}", "x=/(?/;", "x=/[/;",
	"x={get a b(){}};", "switch(1){default:default:}", "({ # : 1 });", "@;", "a b;", "var 1a;", "function(){}", "else;", "catch(e){}", "case 1:;",
	"new;", "x=;", ");", "}", "]", "throw\n1;", "var a=;", "a?b;", "a?b:;", "this=1;", "for(1 in o);", "({a:1,,b:2});", "x=\"\\u12\";", "x='\\x1';",
	"if(1)else;", "x=a+;", "x=typeof;", "var x,;", "x={a};", "x={a:};", "x=[1 2];", "label:label:x;", "x=a..b;", "x=.;", "tru\\u0065=0;", "var \\u0069f;",
	"x=\"abc\n\";", "x=1e;", "x=0x;",
	"for(x=1\nx<3;x++);", "for(var i=0\ni<1;i++);", "switch(1){default:case 1:default:}", "switch(1){case 1:default:;default:}",
	"x=({+:1});", "x={0x:1};", "x={*:2,a:1};", "x={a:1,-:2};",
	"x=/(?</;", "x=/a(?<!/;", "x=/(?<=/;", "x&^=1;", "x=a&^b;", "x=a?b,c:d;", "x=a?b:c,d:e;", "f(a?b,c:d);",
	// invalid assignment targets (ES5 allows them to be reported early, section 16; otto does)
	"f()++;", "f()--;", "++f();", "--f();", "f()=1;", "f()+=1;", "for(f() in o);", "(a,b)=1;", "(a+b)++;", "x++ ++;", "++x++;", "new f()++;", "new f=1;", "a.b()++;", "(a?b:c)=1;", "typeof x=1;", "-x=1;", "x++=1;", "'s'=1;", "null=1;", "true++;", "[a]=1;", "({a:1})=1;", "(function(){})++;", "delete x=1;", "void 0=1;", "a||b=1;", "for(a+b in o);", "for(1 in o);", "for(var a,b in o);",
	"x=/(?</g;", "x=/\\/;", "x=/[\\\n]/;", "x=/a\\\n/;", "x=/[a\\\r\n]/;", "x=/[\\\u2028]/;",
	"x=0in[];", "0in[];", "x=0instanceof Object;", "x=0a;", "x=0$;", "x=0_;", "x=7in[];", "x=10in[];", "x=0.in[];", "x=0.5in[];", "x=.5in[];", "x=1.in[];", "x=1e3a;", "x=1E-2in[];", "x=0x1Fin[];", "x=0X0in[];", "x=0x1g;", "x=7instanceof Object;", "x=7$;", "x=1._;", "for(var k=0in{};;);",
	"\\u0031abc=1;", "var \\u0031a;", "x=\\u0030;", "\\u002Dx;", "a\\u002Db=1;", "a\\u0020b;", "x.\\u0031a;", "({\\u0031a:1});", "function \\u0039f(){}", "function f(\\u0031p){}", "L\\u003A:;", "\\u0031:;",
	"x=1e3in{};", "x=.5E-2instanceof Object;", "x=0e0in[];", "x=3in[];", "x=01a;", "x=0x3in[];", "x=1.5a;", "x=1.e;",
	"a:if(1){while(1){continue a;}}", "a:{b:for(;;){continue a;}}", "function g(){a:switch(1){case 1:for(;;){continue a}}}",
	"a:{continue a;}", "a:switch(1){case 1:continue a;}", "for(;;){(function(){continue;})()}", "while(1){(function(){break;})()}",
	"b:{(function(){b:{}break b;})()}", "x=function(){return}return;",
}

// incomplete constructs: only at the very end of a text
var invalidSuffix = []string{
	"x='unterminated", "/* unterminated", "if(", "for(;;", "with(", "[1,2", "for(var i=0;i<1;i++", "function f(){", "x={", "x=(1", "x=[", "switch(1){case",
	"try{}catch", "try{}catch(", "try{}catch(e", "try{}catch(e)", "try{}finally", "if(1){}else", "do{}while(", "x=function(", "new f(", "x=a?", "var", "var x=", "x.",
	"x[", "x=!", "delete", "void", "typeof", "x=y+", "x=y,", "throw", "'\\", "x={'unterminated:1};", "do;while", "(",
	"x=/[", "x=/a[", "x=/[ab]c[", "x=/a\\", "x=/[\\", "x=/[a\\", "x=/", "x=/a",
}

// Preflight: the corpus of invalid constructs and the syntax zoo are finite, so
// every item is tried (alone and embedded) once per check run instead of being drawn.
func (e rfEngine) Preflight(st *Stats) (*Violation, interface{}) {
	valid := "var a0=1;function g0(x){return x+1}\nif(a0){g0(2)}\nvar z0=2;"
	if preflightPart == 1 {
		return e.preflightZoo(st, valid)
	} else if preflightPart != 0 {
		return nil, nil
	}
	for _, bad := range invalidAnywhere {
		for _, text := range []string{bad, bad + "\n", valid + "\n" + bad + "\nvar after=1;\n", bad + "\n" + valid} {
			c := &RFCase{Engine: "readerfault", Seed: 1, Text: text, Kind: "invalid", Invalid: true}
			if v, rc, _ := e.Exec(c, st); v != nil {
				return v, rc
			}
		}
	}
	for _, bad := range invalidSuffix {
		for _, text := range []string{bad, valid + "\n" + bad} {
			c := &RFCase{Engine: "readerfault", Seed: 1, Text: text, Kind: "invalid", Invalid: true}
			if v, rc, _ := e.Exec(c, st); v != nil {
				return v, rc
			}
		}
	}
	st.Probe("invalid_corpus_enumerated")
	return nil, nil
}

func (e rfEngine) preflightZoo(st *Stats, valid string) (*Violation, interface{}) {
	for i, z := range syntaxZoo {
		for _, text := range []string{z, valid + ";" + z, z + "\n" + valid} {
			c := &RFCase{Engine: "readerfault", Seed: uint64(i + 1), Text: text}
			// every zoo item is a valid ES5 program: the parser must accept it
			st.Runs++
			if ref := doParse(text); ref.panicked == "" && ref.errStr != "" {
				v := viol("C04", "valid_source_rejected", "a text made of valid ES5 constructs only was rejected: %s", clip(ref.errStr))
				v.Key = "valid-rejected"
				c.Kind = "valid"
				return v, c
			}
			if v, rc, _ := e.Exec(c, st); v != nil {
				return v, rc
			}
		}
	}
	st.Probe("corpus_and_zoo_enumerated")
	return nil, nil
}

func (rfEngine) Gen(t *rapid.T, tier string) interface{} {
	c := &RFCase{Engine: "readerfault"}
	c.Seed = rapid.Uint64().Draw(t, "seed")
	var b strings.Builder
	maxParts := 4
	if tier == "thorough" {
		maxParts = 8
	}
	n := rapid.IntRange(1, maxParts).Draw(t, "nparts")
	for i := 0; i < n; i++ {
		switch rapid.IntRange(0, 3).Draw(t, "part") {
		case 0:
			g := newPG(t, rapid.IntRange(2, 14).Draw(t, "budget"), false, false)
			d, body := g.Parts()
			b.WriteString("var t;\n" + d + body)
		case 1:
			b.WriteString(syntaxZoo[rapid.IntRange(0, len(syntaxZoo)-1).Draw(t, "zoo")])
		case 2:
			b.WriteString(jsFragments[rapid.IntRange(0, len(jsFragments)-1).Draw(t, "frag")] + ";")
		default:
			fr := heapFragments(rapid.IntRange(1, 9).Draw(t, "uid"))
			b.WriteString("var H=H||{},R=R||[];" + fr[rapid.IntRange(0, len(fr)-1).Draw(t, "heap")])
		}
		b.WriteString("\n")
	}
	c.Text = b.String()
	if rapid.IntRange(0, 5).Draw(t, "inlinemap?") == 5 {
		// a bundle that ends in an inline source map comment: truncations land inside it
		c.Text += "\n//# sourceMappingURL=data:application/json;base64,eyJ2ZXJzaW9uIjozLCJzb3VyY2VzIjpbXSwibmFtZXMiOltdLCJtYXBwaW5ncyI6IiJ9"
	}
	maxLen := 1500
	if tier == "thorough" {
		maxLen = 4000
	}
	if len(c.Text) > maxLen {
		c.Text = c.Text[:maxLen]
	}
	if len(c.Text) < maxLen && rapid.IntRange(0, 2).Draw(t, "invalid?") == 2 {
		// invalid by construction: a forbidden construct after (and possibly before) valid programs
		c.Invalid = true
		if rapid.Bool().Draw(t, "suffix") {
			c.Text += "\n" + invalidSuffix[rapid.IntRange(0, len(invalidSuffix)-1).Draw(t, "badsuffix")]
		} else {
			bad := invalidAnywhere[rapid.IntRange(0, len(invalidAnywhere)-1).Draw(t, "bad")]
			if rapid.Bool().Draw(t, "before") {
				c.Text = bad + "\n" + c.Text
			} else {
				c.Text += "\n" + bad + "\nvar after=1;\n"
			}
		}
	}
	return c
}
