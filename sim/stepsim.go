package main

import (
	"encoding/json"
	"errors"
	"fmt"
	"reflect"
	"regexp"
	goruntime "runtime"
	"sort"
	"strconv"
	"strings"

	"github.com/robertkrimen/otto"
	"pgregory.net/rapid"
)

// stepsim: one interpreter task plus simulated watchdogs. The simulator owns
// the step counter (verif hook), the simulated clock, the interrupt schedule,
// host-function faults and the stack limit. See DESIGN.md §4 C18.

const (
	deliveryBound = 1024 // steps a sent function may stay undelivered while the script runs
	stepCapA      = 6000 // class A reference runs longer than this are discarded as invalid
	stepCapB      = 4000 // class B: latest step at which the final watchdog is scheduled
)

type Irq struct {
	Step int    `json:"step"`            // absolute step index at which the function is sent (resolved)
	AtNs int64  `json:"at_ns,omitempty"` // simulated-time deadline (watchdog); resolved into Step at run time
	Kind string `json:"kind"`            // noop | mutate | panic_error | panic_string | panic_int | panic_struct | panic_ptr
	Pre  bool   `json:"pre,omitempty"`   // already queued on the (buffered) channel when the script is started
	// generation-time anchor (resolved against the reference run, then cleared)
	Anchor string `json:"anchor,omitempty"`
	Index  int    `json:"index,omitempty"`
	Off    int    `json:"off,omitempty"`
}

type HostFault struct {
	Call int    `json:"call"`          // hf() call number (1-based) that faults
	Kind string `json:"kind"`          // go_string | go_error | go_int | go_struct | js_type | js_custom
	Any  bool   `json:"any,omitempty"` // count every host-function call of the main program (emit, nid, hf), not only hf
}

type StepCase struct {
	Engine     string      `json:"engine"`
	Seed       uint64      `json:"seed"`
	Program    string      `json:"program,omitempty"` // legacy: complete text, entry "run"
	Decls      string      `json:"decls,omitempty"`
	Body       string      `json:"body,omitempty"`
	Entry      string      `json:"entry,omitempty"`     // run | call | valuecall | eval : API route by which the main program is started
	LateChan   bool        `json:"late_chan,omitempty"` // install the Interrupt channel only after the runtime has already run scripts
	OnCopy     bool        `json:"on_copy,omitempty"`   // the main program runs on a Copy() taken after the definition stage
	ClassB     bool        `json:"class_b"`
	StackLimit int         `json:"stack_limit"`
	ChanCap    int         `json:"chan_cap"`
	Mode       string      `json:"mode"` // exhaustive | seeded | limitgrid
	GridForm   int         `json:"grid_form,omitempty"`
	DynAt      int         `json:"dyn_at,omitempty"` // dynlimit: recursion depth at which a host function tightens the limit
	Irqs       []Irq       `json:"irqs,omitempty"`
	HostFaults []HostFault `json:"host_faults,omitempty"`
	Debugger   bool        `json:"debugger"`
	TraceLimit int         `json:"trace_limit"`
	Deep       bool        `json:"deep,omitempty"` // thorough tier: larger programs are still swept at every step
}

type JEntry struct {
	Tag  string `json:"g"`
	T    int    `json:"t"`
	Kind int    `json:"k"`
	Step int    `json:"s"`
}

type pendingIrq struct {
	irq         Irq
	sentAt      int
	sent        bool
	delivered   bool
	deliveredAt int
	gid         string
	payload     interface{}
}

type structPayload struct {
	A int
	B string
}

type harnessAbort struct{ why string }

var catchParamRe = regexp.MustCompile(`catch\((\w+)\)`)

type stepRun struct {
	c                   *StepCase
	vm                  *otto.Otto
	st                  *Stats
	active              bool
	step                int
	clock               int64
	rng                 *Rng
	journal             []JEntry
	nextID              int
	dbgCount            int
	pend                []*pendingIrq
	halted              bool
	haltVal             interface{}
	abort               bool
	overrun             bool
	viol                *Violation
	hfCalls             int
	anyCalls            int
	faultJournalLen     int
	dynLimit, dynDepth0 int
	faulted             bool
	haltJS              bool
	orig                *otto.Otto
	foreignSteps        int
	hfVals              []interface{}
	gid                 string
	maxSteps            int
	minDepthBad         bool
	anchors             *anchorLog // recorded on reference runs
	flagSteps           []int
	senders             []chan struct{}
}

type anchorLog struct {
	afterB   []int // step index right after a 'b' journal entry
	loopHead []int
	inTry    []int
	deep     []int // steps with scope depth >= 3
	labelled []int
}

var curStep *stepRun

func stepHook(o *otto.Otto, kind otto.VerifStepKind, node interface{}) {
	r := curStep
	if r == nil || !r.active {
		return
	}
	if o != r.vm {
		// the script was started on r.vm; evaluation on another runtime in the
		// same call means a copy is executing its original's code
		r.foreignSteps++
		if r.foreignSteps > 2000 {
			if r.viol == nil {
				r.viol = viol("C18", "script_ran_on_another_runtime", "more than 2000 evaluation steps were executed by a runtime other than the one the script was started on (a copy running its original's functions): interrupts and the depth limit of the running runtime do not apply there")
			}
			r.abort = true
			panic(harnessAbort{"foreign"})
		}
		return
	}
	idx := r.step
	r.step++
	// simulated clock: the deciding quantity is the step index; the clock
	// only maps watchdog deadlines onto steps (DESIGN §3.2).
	x := r.rng.Next()
	dt := int64(100 + x%2000)
	if x>>56 == 0 { // slow node: stall
		dt += int64((x >> 20) % 50e6)
	} else if x>>52 == 1 { // clock jump
		dt += int64((x >> 20) % 2e9)
	}
	r.clock += dt

	if r.halted && r.viol == nil {
		sig, _ := goStackSig(2)
		r.viol = viol("C18", "continued_after_irq_panic", "script executed step %d after an interrupt function panicked at step %d", idx, r.lastHaltStep())
		if strings.Contains(sig, "tryCatchEvaluate") {
			r.viol.Key = "irq-panic-intercepted-by-script-try"
		}
		r.abort = true
	}
	if r.abort {
		panic(harnessAbort{"abort"})
	}
	if idx > r.maxSteps {
		r.overrun = true
		r.abort = true
		panic(harnessAbort{"overrun"})
	}
	depth := r.vm.VerifScopeDepth()
	if depth < 1 && r.viol == nil {
		r.viol = viol("C18", "no_scope_while_running", "scope depth %d at step %d", depth, idx)
	}
	if lim := r.curLimit(); lim > 0 && r.viol == nil {
		// documented semantics (SetStackDepthLimit, TestOttoSetStackDepthLimit):
		// a limit of L admits L-1 nested function calls. Frames that existed when
		// the limit was tightened mid-run stay, but nothing may be added on top.
		// (L when the script was entered through Value.Call at rest: no global
		// context below the first function then.)
		f := r.vm.VerifFunctionDepth()
		bound := lim
		if r.dynLimit > 0 && r.dynDepth0 > bound {
			bound = r.dynDepth0
		}
		if f > bound {
			r.viol = viol("C18", "stack_limit_not_enforced", "%d nested function calls at step %d under SetStackDepthLimit(%d) (limit set mid-run at nesting %d: %v)", f, idx, lim, r.dynDepth0, r.dynLimit > 0)
			r.abort = true
			panic(harnessAbort{"depth"})
		}
	}
	if r.anchors != nil {
		if kind >= otto.VerifStepFor {
			r.anchors.loopHead = append(r.anchors.loopHead, idx)
		}
		if depth >= 3 {
			r.anchors.deep = append(r.anchors.deep, idx)
		}
		if r.vm.VerifLabelCount() > 0 {
			r.anchors.labelled = append(r.anchors.labelled, idx)
		}
	}
	for _, p := range r.pend {
		if p.sent && !p.delivered && idx-p.sentAt > deliveryBound && r.viol == nil {
			r.viol = viol("C18", "irq_not_delivered", "function sent at step %d still undelivered at step %d (bound %d)", p.sentAt, idx, deliveryBound)
			r.abort = true
			panic(harnessAbort{"late"})
		}
	}
	for _, p := range r.pend {
		if p.sent {
			continue
		}
		due := (p.irq.AtNs == 0 && idx >= p.irq.Step) || (p.irq.AtNs > 0 && r.clock >= p.irq.AtNs)
		if !due {
			continue
		}
		fn := r.makeIrqFn(p)
		if cap(r.vm.Interrupt) == 0 {
			// unbuffered channel: a real watchdog goroutine performs the send;
			// the interpreter proceeds to its poll once that goroutine is parked
			// in the channel send, so the poll finds a ready sender.
			r.startSender(fn)
			p.sent = true
			p.sentAt = idx
			r.st.Probe("unbuffered_real_sender")
			continue
		}
		select {
		case r.vm.Interrupt <- fn:
			p.sent = true
			p.sentAt = idx
		default:
			// channel full: a blocking sender would simply wait; retry next step
			r.st.Probe("chan_full_retry")
		}
	}
}

// startSender launches a goroutine that sends fn on the (unbuffered)
// Interrupt channel and waits until it is blocked in the send.
func (r *stepRun) startSender(fn func()) {
	ch := r.vm.Interrupt
	done := make(chan struct{})
	r.senders = append(r.senders, done)
	started := make(chan struct{})
	go func() {
		close(started)
		ch <- fn
		close(done)
	}()
	<-started
	buf := make([]byte, 1<<16)
	for i := 0; i < 100000; i++ {
		select {
		case <-done:
			return // already received (cannot happen before the poll, but harmless)
		default:
		}
		n := goruntime.Stack(buf, true)
		if strings.Contains(string(buf[:n]), "[chan send]") || strings.Contains(string(buf[:n]), "[chan send,") {
			return
		}
		goruntime.Gosched()
	}
	fatalf("harness: sender goroutine never parked in chan send")
}

// reapSenders unblocks sender goroutines whose function was never received
// because the script ended first.
func (r *stepRun) reapSenders() {
	for _, d := range r.senders {
		for {
			select {
			case <-d:
			case <-r.vm.Interrupt:
				continue
			}
			break
		}
	}
	r.senders = nil
}

func (r *stepRun) curLimit() int {
	if r.dynLimit > 0 {
		return r.dynLimit
	}
	return r.c.StackLimit
}

func (r *stepRun) lastHaltStep() int {
	for _, p := range r.pend {
		if p.delivered && strings.HasPrefix(p.irq.Kind, "panic_") {
			return p.deliveredAt
		}
	}
	return -1
}

var errHalt = errors.New("halt")

func makePayload(kind string) interface{} {
	switch kind {
	case "panic_error", "go_error":
		return errors.New("injected " + kind)
	case "panic_string", "go_string":
		return "injected-string"
	case "panic_int", "go_int":
		return 4242
	case "panic_struct", "go_struct":
		return structPayload{7, "seven"}
	case "panic_ptr":
		return &structPayload{8, "eight"}
	}
	return nil
}

func (r *stepRun) makeIrqFn(p *pendingIrq) func() {
	return func() {
		p.delivered = true
		p.deliveredAt = r.step - 1
		p.gid = goid()
		r.st.Fault("irq_" + p.irq.Kind)
		sig, inTry := goStackSig(1)
		r.st.Sig(hashStr(sig, p.irq.Kind))
		r.noteProbes(sig, inTry)
		switch p.irq.Kind {
		case "noop":
		case "mutate":
			if err := r.vm.Set("flag", true); err != nil && r.viol == nil {
				r.viol = viol("C18", "irq_mutate_failed", "Set inside interrupt function: %v", err)
			}
		case "setlimit":
			// the embedder tightens the limit while the script runs
			r.dynLimit = 6 + int(p.irq.Step%9)
			r.dynDepth0 = r.vm.VerifFunctionDepth()
			r.vm.SetStackDepthLimit(r.dynLimit)
		case "panic_jsvalue":
			// the interrupt function halts the script with an otto error value
			p.payload = r.vm.MakeCustomError("Halt", "injected halt")
			r.halted = true
			r.haltVal = p.payload
			r.haltJS = true
			panic(p.payload)
		default:
			p.payload = makePayload(p.irq.Kind)
			r.halted = true
			r.haltVal = p.payload
			panic(p.payload)
		}
	}
}

func (r *stepRun) noteProbes(sig string, inTry bool) {
	if inTry {
		r.st.Probe("inject_inside_try_or_catch")
	}
	for _, pr := range [][2]string{
		{"cmplEvaluateNodeForStatement<", "inject_at_for_site"},
		{"cmplEvaluateNodeWithStatement", "inject_inside_with"},
		{"cmplEvaluateNodeForInStatement", "inject_inside_forin"},
		{"builtinArraySort", "inject_inside_sort_comparator"},
		{"builtinJSONStringify", "inject_inside_json_stringify"},
		{"builtinJSONParse", "inject_inside_json_parse"},
		{"builtinStringReplace", "inject_inside_replace_cb"},
		{"cmplEvaluateNodeNewExpression", "inject_under_new"},
		{"builtinGlobalEval", "inject_inside_eval"},
		{"builtinFunctionCall", "inject_inside_fn_call"},
		{"builtinFunctionApply", "inject_inside_fn_apply"},
		{"Otto.Call", "inject_inside_otto_call"},
		{"Value.Call", "inject_inside_value_call"},
		{"Otto.Eval", "inject_inside_otto_eval"},
		{"property.get", "inject_inside_getter"},
		{"property.put", "inject_inside_setter"},
		{"cmplEvaluateNodeStatement<(*runtime).cmplEvaluateNodeTryStatement", "inject_inside_finally"},
		{"builtinArrayForEach", "inject_inside_foreach_cb"},
		{"builtinArrayMap", "inject_inside_map_cb"},
		{"cmplEvaluateNodeCallExpression<(*runtime).cmplEvaluateNodeCallExpression", "inject_during_argument_or_callee_evaluation"},
		{"cmplFunctionDeclaration", "inject_during_declaration_instantiation"},
		{"cmplEvaluateNodeSwitchStatement", "inject_inside_switch"},
		{"DefaultValue", "inject_inside_coercion"},
	} {
		if strings.Contains(sig, pr[0]) {
			r.st.Probe(pr[1])
		}
	}
	if r.vm.VerifLabelCount() > 0 {
		r.st.Probe("inject_with_label_pending")
	}
	if lim := r.c.StackLimit; lim > 0 && r.vm.VerifScopeDepth() >= lim {
		r.st.Probe("inject_at_max_depth")
	}
	np := 0
	for _, q := range r.pend {
		if q.sent && !q.delivered {
			np++
		}
	}
	if np >= 1 {
		r.st.Probe("inject_with_another_irq_pending")
	}
	if strings.Count(sig, "Otto.Run") > 1 {
		r.st.Probe("inject_inside_nested_run")
	}
	if strings.HasPrefix(strings.TrimPrefix(sig, "(*runtime).interrupt<"), "(*runtime).cmplEvaluateNodeForStatement") {
		r.st.Probe("inject_at_empty_for_poll")
	}
}

// ---------------------------------------------------------------------------

type RunResult struct {
	Value    string
	Err      string
	Panicked bool
	PanicVal interface{}
	Journal  []JEntry
	Steps    int
	Depth    int
	Labels   int
	run      *stepRun
}

func valStr(v otto.Value) string {
	if v.IsObject() {
		return "[object " + v.Class() + "]"
	}
	return v.String()
}

// hostFault panics if the case schedules a host-function fault for this call.
func (r *stepRun) hostFault(call otto.FunctionCall, isHf bool) {
	if !r.active {
		return
	}
	r.anyCalls++
	if isHf {
		r.hfCalls++
	}
	for _, hf := range r.c.HostFaults {
		if (hf.Any && hf.Call == r.anyCalls) || (!hf.Any && isHf && hf.Call == r.hfCalls) {
			r.st.Fault("host_" + hf.Kind)
			if !r.faulted {
				r.faulted = true
				r.faultJournalLen = len(r.journal) // the run may legitimately diverge from here on
			}
			switch hf.Kind {
			case "js_type":
				panic(call.Otto.MakeTypeError("injected host TypeError"))
			case "js_custom":
				panic(call.Otto.MakeCustomError("HostFault", "injected host error"))
			default:
				p := makePayload(hf.Kind)
				r.hfVals = append(r.hfVals, p)
				panic(p)
			}
		}
	}
}

func (r *stepRun) install() {
	vm := r.vm
	must := func(err error) {
		if err != nil {
			fatalf("harness: Set: %v", err)
		}
	}
	must(vm.Set("emit", func(call otto.FunctionCall) otto.Value {
		r.hostFault(call, false)
		tag := call.Argument(0).String()
		t, _ := call.Argument(1).ToInteger()
		k, _ := call.Argument(2).ToInteger()
		st := -1
		if r.active {
			st = r.step - 1
		}
		r.journal = append(r.journal, JEntry{tag, int(t), int(k), st})
		if r.anchors != nil && tag == "b" && r.active {
			r.anchors.afterB = append(r.anchors.afterB, r.step)
		}
		return otto.UndefinedValue()
	}))
	must(vm.Set("nid", func(call otto.FunctionCall) otto.Value {
		r.hostFault(call, false)
		r.nextID++
		v, _ := otto.ToValue(r.nextID)
		return v
	}))
	must(vm.Set("hf", func(call otto.FunctionCall) otto.Value {
		r.hostFault(call, true)
		return otto.UndefinedValue()
	}))
	rethrow := func(call otto.FunctionCall, err error) {
		panic(call.Otto.MakeCustomError("HostError", err.Error()))
	}
	// a Go function bridged through reflection that drives a script callback
	must(vm.Set("hreflect", func(n int, cb func(int) int) int {
		r.st.Probe("reflected_go_function_drives_callback")
		sum := 0
		for i := 0; i < n; i++ {
			sum += cb(i)
		}
		return sum
	}))
	must(vm.Set("hsetlimit", func(call otto.FunctionCall) otto.Value {
		l, _ := call.Argument(0).ToInteger()
		r.dynLimit = int(l)
		r.dynDepth0 = call.Otto.VerifFunctionDepth() // includes this host call itself
		call.Otto.SetStackDepthLimit(int(l))
		return otto.UndefinedValue()
	}))
	must(vm.Set("hcall", func(call otto.FunctionCall) otto.Value {
		r.st.Probe("reenter_otto_call")
		v, err := call.Otto.Call(call.Argument(0).String(), nil, call.Argument(1))
		if err != nil {
			rethrow(call, err)
		}
		return v
	}))
	must(vm.Set("hvcall", func(call otto.FunctionCall) otto.Value {
		r.st.Probe("reenter_value_call")
		v, err := call.Argument(0).Call(otto.NullValue(), call.Argument(1))
		if err != nil {
			rethrow(call, err)
		}
		return v
	}))
	must(vm.Set("hobj", func(call otto.FunctionCall) otto.Value {
		r.st.Probe("reenter_object_call")
		o := call.Argument(0).Object()
		if o == nil {
			return otto.UndefinedValue()
		}
		v, err := o.Call("call", nil, 1)
		if err != nil {
			rethrow(call, err)
		}
		return v
	}))
	must(vm.Set("hrun", func(call otto.FunctionCall) otto.Value {
		r.st.Probe("reenter_otto_run")
		v, err := call.Otto.Run(call.Argument(0).String())
		if err != nil {
			rethrow(call, err)
		}
		return v
	}))
	must(vm.Set("heval", func(call otto.FunctionCall) otto.Value {
		r.st.Probe("reenter_otto_eval")
		v, err := call.Otto.Eval(call.Argument(0).String())
		if err != nil {
			rethrow(call, err)
		}
		return v
	}))
	must(vm.Set("hctx", func(call otto.FunctionCall) otto.Value {
		r.st.Probe("host_reads_context")
		ctx := call.Otto.Context()
		_ = ctx.Symbols
		return otto.UndefinedValue()
	}))
	if r.c.Debugger {
		vm.SetDebuggerHandler(func(o *otto.Otto) {
			r.st.Probe("debugger_handler")
			r.dbgCount++
			if _, err := o.Get("C"); err != nil && r.viol == nil {
				r.viol = viol("C18", "debugger_get_failed", "%v", err)
			}
			// a handler that inspects the paused program by evaluating in it: the
			// evaluation takes steps, so an interrupt can land inside the handler
			// (like the other host functions of this harness it passes a failure of
			// the nested call on instead of swallowing it)
			if _, err := o.Eval("var __dz=(__dz|0)+1;__dz"); err != nil {
				panic(o.MakeCustomError("HostError", err.Error()))
			}
		})
	}
	if _, err := vm.Run(preludeJS + "function __spin(){for(;;){}}\n"); err != nil {
		fatalf("harness: prelude: %v", err)
	}
}

// protectedEntry starts the main program through the case's API route.
func protectedEntry(vm *otto.Otto, entry, src string) (val otto.Value, err error, panicked bool, pv interface{}) {
	defer func() {
		if x := recover(); x != nil {
			panicked = true
			pv = x
		}
	}()
	switch entry {
	case "", "run":
		val, err = vm.Run(src)
	case "call":
		val, err = vm.Call(src, nil)
	case "valuecall":
		var fn otto.Value
		fn, err = vm.Get(src)
		if err != nil {
			fatalf("harness: Get(%s): %v", src, err)
		}
		val, err = fn.Call(otto.UndefinedValue())
	case "eval":
		val, err = vm.Eval(src + "()")
	default:
		fatalf("unknown entry %q", entry)
	}
	return
}

// firstScriptAfterExit runs "try{throw 0}catch(e){return __rb()}" through one of
// three API routes.
func firstScriptAfterExit(vm *otto.Otto, route int) (val otto.Value, err error, panicked bool, pv interface{}) {
	defer func() {
		if x := recover(); x != nil {
			panicked = true
			pv = x
		}
	}()
	switch route {
	case 1:
		var fn otto.Value
		fn, err = vm.Get("__tc")
		if err == nil {
			val, err = fn.Call(otto.UndefinedValue())
		}
	case 2:
		val, err = vm.Call("__tc", nil)
	default:
		val, err = vm.Run("(function(){try{throw 0}catch(e0){return __rb()}})()")
	}
	return
}

// protectedRun calls vm.Run(src) and converts a panic into data.
func protectedRun(vm *otto.Otto, src string) (val otto.Value, err error, panicked bool, pv interface{}) {
	defer func() {
		if x := recover(); x != nil {
			panicked = true
			pv = x
		}
	}()
	val, err = vm.Run(src)
	return
}

// execRun performs one simulated run of the case with the given interrupt
// schedule. withChan=false runs with Interrupt==nil (reference R0').
func execRun(c *StepCase, irqs []Irq, withChan bool, st *Stats, wantAnchors bool) *RunResult {
	r := &stepRun{c: c, st: st, rng: NewRng(c.Seed), gid: goid()}
	r.vm = otto.New()
	mkChan := func() {
		if withChan {
			r.vm.Interrupt = make(chan func(), c.ChanCap) // capacity 0: unbuffered, real sender goroutines
		}
	}
	if !c.LateChan {
		mkChan()
	}
	r.install()
	define, mainSrc := c.Program, ""
	if c.Program == "" {
		define, mainSrc = assemble(c.Decls, c.Body, c.Entry)
	} else {
		define, mainSrc = "", c.Program
	}
	if define != "" {
		if _, err := r.vm.Run(define); err != nil {
			fatalf("harness: definition stage failed: %v\n%s", err, define)
		}
	}
	if c.OnCopy {
		// everything defined so far (functions, bound functions, stores) came into
		// being on the original; the script now runs on its copy
		orig := r.vm
		r.vm = orig.Copy()
		r.orig = orig
		if !c.LateChan {
			mkChan()
		}
	}
	if c.LateChan {
		mkChan()
	}
	if c.StackLimit > 0 {
		r.vm.SetStackDepthLimit(c.StackLimit)
	}
	if c.TraceLimit > 0 {
		r.vm.SetStackTraceLimit(c.TraceLimit)
	}
	for _, q := range irqs {
		r.pend = append(r.pend, &pendingIrq{irq: q})
	}
	if c.ClassB {
		r.maxSteps = stepCapB + deliveryBound + 64
	} else {
		r.maxSteps = stepCapA
	}
	if wantAnchors {
		r.anchors = &anchorLog{}
	}
	if r.vm.Interrupt != nil && cap(r.vm.Interrupt) > 0 {
		// functions a watchdog queued before the host got round to starting the script
		for _, p := range r.pend {
			if p.irq.Pre && !p.sent && len(r.vm.Interrupt) < cap(r.vm.Interrupt) {
				r.vm.Interrupt <- r.makeIrqFn(p)
				p.sent, p.sentAt = true, 0
				r.st.Probe("irq_queued_before_start")
			}
		}
	}
	curStep = r
	r.active = true
	val, err, panicked, pv := protectedEntry(r.vm, c.Entry, mainSrc)
	r.active = false
	curStep = nil
	r.reapSenders()
	st.Runs++
	st.Steps += int64(r.step)
	st.SimTimeNs += r.clock

	res := &RunResult{Steps: r.step, run: r, Panicked: panicked, PanicVal: pv}
	if !panicked {
		res.Value = valStr(val)
		if err != nil {
			res.Err = err.Error()
		}
	}
	res.Depth = r.vm.VerifScopeDepth()
	res.Labels = r.vm.VerifLabelCount()
	res.Journal = append([]JEntry(nil), r.journal...)
	if eventLogOn {
		ev("steprun", r.step, res.Value, res.Err, res.Panicked, fmt.Sprint(res.PanicVal), res.Depth, res.Labels, r.clock)
		for _, e := range res.Journal {
			ev(e.Tag, e.T, e.Kind, e.Step)
		}
		for _, p := range r.pend {
			ev("irq", p.irq.Kind, p.sent, p.sentAt, p.delivered, p.deliveredAt)
		}
	}
	return res
}

func sameJournal(a, b []JEntry) bool {
	if len(a) != len(b) {
		return false
	}
	for i := range a {
		if a[i] != b[i] {
			return false
		}
	}
	return true
}

func isPrefix(a, b []JEntry) bool {
	if len(a) > len(b) {
		return false
	}
	return sameJournal(a, b[:len(a)])
}

// checkEffects is oracle 5: the durable stores must agree with the journal.
func checkEffects(journal []JEntry, rb string) string {
	var d struct {
		V   map[string]string        `json:"v"`
		D   map[string][]interface{} `json:"d"`
		P   map[string]string        `json:"P"`
		A   map[string]string        `json:"a"`
		W   map[string]string        `json:"w"`
		Arr []string                 `json:"arr"`
		Log string                   `json:"log"`
		Gk  string                   `json:"gk"`
		Srt string                   `json:"srt"`
	}
	if err := json.Unmarshal([]byte(rb), &d); err != nil {
		return "readback not parseable: " + err.Error() + ": " + rb
	}
	if d.Srt != "" && d.Srt != "1,2,3,4,5,6,7|1,2,3,4,5,6,7,8,9,10,11,12|7|12" {
		return "an array that is only ever sorted in place no longer holds exactly its elements: " + d.Srt
	}
	begun := map[[2]int]bool{}
	committed := map[[2]int]bool{}
	for _, e := range journal {
		switch e.Tag {
		case "b":
			begun[[2]int{e.Kind, e.T}] = true
		case "c":
			if !begun[[2]int{e.Kind, e.T}] {
				return fmt.Sprintf("journal has commit without begin for tx %d kind %d", e.T, e.Kind)
			}
			committed[[2]int{e.Kind, e.T}] = true
		}
	}
	seen := map[[2]int]bool{}
	chk := func(kind int, ts string, val interface{}, want string) string {
		t, err := strconv.Atoi(ts)
		if err != nil {
			return fmt.Sprintf("store kind %d has foreign key %q", kind, ts)
		}
		if !begun[[2]int{kind, t}] {
			return fmt.Sprintf("store kind %d holds tx %d that never began", kind, t)
		}
		if s, ok := val.(string); !ok || s != want {
			return fmt.Sprintf("store kind %d tx %d holds %v, want %q", kind, t, val, want)
		}
		if seen[[2]int{kind, t}] {
			return fmt.Sprintf("store kind %d holds tx %d twice", kind, t)
		}
		seen[[2]int{kind, t}] = true
		return ""
	}
	for k, v := range d.V {
		if m := chk(0, k, v, "p"+k); m != "" {
			return m
		}
	}
	if d.Log != "" {
		for _, k := range strings.Split(d.Log, ",") {
			if m := chk(1, k, "p"+k, "p"+k); m != "" {
				return m
			}
		}
	}
	for k, v := range d.D {
		ts := strings.TrimPrefix(k, "k")
		if len(v) != 4 {
			return "descriptor shape"
		}
		if m := chk(2, ts, v[0], "p"+ts); m != "" {
			return m
		}
		t, _ := strconv.Atoi(ts)
		if v[1] != (t%2 == 0) || v[2] != false || v[3] != true {
			return fmt.Sprintf("defineProperty tx %d has attributes %v", t, v[1:])
		}
	}
	for k, v := range d.P {
		ts := strings.TrimPrefix(k, "m")
		if m := chk(3, ts, v, "p"+ts); m != "" {
			return m
		}
	}
	for k, v := range d.A {
		if m := chk(4, k, v, "p"+k); m != "" {
			return m
		}
	}
	for k, v := range d.W {
		if m := chk(5, k, v, "p"+k); m != "" {
			return m
		}
	}
	for _, v := range d.Arr {
		ts := strings.TrimPrefix(v, "p")
		if m := chk(6, ts, v, "p"+ts); m != "" {
			return m
		}
	}
	for kt := range committed {
		if !seen[kt] {
			return fmt.Sprintf("committed tx %d (kind %d) is missing from its store", kt[1], kt[0])
		}
	}
	if d.Gk != "v,d,P,a,w,arr,n,srt,srt2" {
		return "store object S has keys " + d.Gk
	}
	return ""
}

var freshThresholds = map[[2]int]int{}

// freshThreshold measures, once per (form, limit), how many levels of a
// recursion form a fresh runtime admits.
func freshThreshold(fi, lim int) int {
	if v, ok := freshThresholds[[2]int{fi, lim}]; ok {
		return v
	}
	c := &StepCase{Engine: "stepsim", Program: "1;", ChanCap: 1}
	r := &stepRun{c: c, st: NewStats(), rng: NewRng(1)}
	r.vm = otto.New()
	r.install()
	r.vm.SetStackDepthLimit(lim)
	forms := recursionForms("__q")
	qv, _, _, _ := protectedRun(r.vm, "var __Q=0;function __q(n){__Q++;return "+forms[fi]+";}try{__q(0)}catch(__e){}__Q")
	n, _ := qv.ToInteger()
	freshThresholds[[2]int{fi, lim}] = int(n)
	return int(n)
}

var contExpected string
var contSrc = continuationJS()

const depthProbeJS = `var __D=0; function __r(){__D++; __r();} try{__r()}catch(__e){ if(!(__e instanceof RangeError)) throw __e } __D`

// postChecks: oracles 5-8 on the runtime after the main program has exited.
func postChecks(c *StepCase, res *RunResult) *Violation {
	r := res.run
	vm := r.vm
	if res.Depth != 0 || res.Labels != 0 {
		return viol("C18", "not_at_rest", "after exit: scope depth %d, labels %d", res.Depth, res.Labels)
	}
	// drain any function still queued (sent but Run ended first): legal
	if vm.Interrupt != nil {
		for len(vm.Interrupt) > 0 {
			<-vm.Interrupt
		}
	}
	r.halted = false
	lim := c.StackLimit
	vm.SetStackDepthLimit(0) // harness scripts (read-back, continuation) are not subject to the case's limit
	// the very first script after the exit already relies on try/catch
	// (entered through a route drawn from the case: Run enters a global context
	// first, Value.Call and Otto.Call start straight in the function)
	rbv, err, p, pv := firstScriptAfterExit(vm, int(c.Seed%3))
	if p || err != nil {
		return viol("C18", "first_script_after_exit_failed", "a script using try/catch right after the exit (route %d): err=%v panic=%v", c.Seed%3, err, pv)
	}
	if m := checkEffects(r.journal, rbv.String()); m != "" {
		return viol("C18", "effects_inconsistent", "%s", m)
	}
	// the runtime must still be interruptible: an endless loop under a panicking watchdog
	if vm.Interrupt != nil && cap(vm.Interrupt) > 0 {
		probe := &pendingIrq{irq: Irq{Step: 3, Kind: "panic_error"}}
		save := r.pend
		r.pend = []*pendingIrq{probe}
		r.step, r.abort, r.overrun, r.halted = 0, false, false, false
		r.maxSteps = deliveryBound + 64
		curStep = r
		r.active = true
		_, _, pp, ppv := protectedRun(vm, "for(;;){var zz=1}")
		r.active = false
		curStep = nil
		r.pend = save
		if !probe.delivered || !pp || !payloadEqual(ppv, probe.payload) {
			return viol("C18", "not_interruptible_after_exit", "an endless loop run after the exit: watchdog delivered=%v, Run panicked=%v with %v", probe.delivered, pp, ppv)
		}
		r.halted = false
		for len(vm.Interrupt) > 0 {
			<-vm.Interrupt
		}
		if d, l := vm.VerifScopeDepth(), vm.VerifLabelCount(); d != 0 || l != 0 {
			return viol("C18", "not_at_rest", "after the second interrupted script: scope depth %d, labels %d", d, l)
		}
	}
	// a catch parameter is scoped to its catch block: whatever way the program
	// ended, none of its catch parameters is visible to a later script
	if names := catchParamRe.FindAllStringSubmatch(c.Decls+c.Body+c.Program, -1); len(names) > 0 {
		var probe []string
		seen := map[string]bool{}
		for _, m := range names {
			if !seen[m[1]] {
				seen[m[1]] = true
				probe = append(probe, "typeof "+m[1])
			}
		}
		pv1, err, p, pv := protectedRun(vm, "["+strings.Join(probe, ",")+"].join()")
		if p || err != nil {
			return viol("C18", "scope_probe_failed", "err=%v panic=%v", err, pv)
		}
		for i, ty := range strings.Split(pv1.String(), ",") {
			if ty != "undefined" {
				return viol("C18", "catch_parameter_leaked", "after the exit `%s` is %q for a later script (a catch parameter is visible only inside its catch block)", probe[i], ty)
			}
		}
	}
	// a debugger handler stays installed whatever way the previous script ended
	if c.Debugger {
		before := r.dbgCount
		_, err, p, pv := protectedRun(vm, "debugger;")
		if p || err != nil || r.dbgCount != before+1 {
			return viol("C18", "debugger_handler_lost", "`debugger;` run after the exit: handler invoked %d times (want 1), err=%v panic=%v", r.dbgCount-before, err, pv)
		}
	}
	// continuation: later scripts run normally
	cv, err, p, pv := protectedRun(vm, contSrc)
	if p || err != nil {
		return viol("C18", "continuation_failed", "err=%v panic=%v", err, pv)
	}
	if valStr(cv) != contExpected {
		return viol("C18", "continuation_diverged", "continuation value %s, on a fresh runtime %s", valStr(cv), contExpected)
	}
	if d, l := vm.VerifScopeDepth(), vm.VerifLabelCount(); d != 0 || l != 0 {
		return viol("C18", "not_at_rest", "after continuation: scope depth %d, labels %d", d, l)
	}
	rbv, err, p, pv = protectedRun(vm, "__rb()")
	if p || err != nil {
		return viol("C18", "readback_failed", "err=%v panic=%v", err, pv)
	}
	if m := checkEffects(r.journal, rbv.String()); m != "" {
		return viol("C18", "effects_inconsistent", "after continuation: %s", m)
	}
	if r.dynLimit > 0 {
		lim = r.dynLimit
	}
	if lim > 0 {
		vm.SetStackDepthLimit(lim)
		dv, err, p, pv := protectedRun(vm, depthProbeJS)
		if p || err != nil {
			return viol("C18", "depth_probe_failed", "err=%v panic=%v", err, pv)
		}
		if got, _ := dv.ToInteger(); int(got) != lim-1 {
			return viol("C18", "limit_not_exact", "limit %d admitted %d nested direct calls after this exit, documented %d", lim, got, lim-1)
		}
		// other call forms: whatever a fresh runtime admits under this limit, this
		// runtime must admit after the exit (a leaked counter or context shifts it)
		forms := recursionForms("__q")
		// a form drawn from the case, plus direct eval (accounted for by its own counter)
		for _, fi := range []int{int(c.Seed % uint64(len(forms))), 5} {
			probe := "var __Q=0;function __q(n){__Q++;return " + forms[fi] + ";}try{__q(0)}catch(__e){}__Q"
			qv, err, p, pv := protectedRun(vm, probe)
			if p || err != nil {
				return viol("C18", "depth_probe_failed", "form `%s`: err=%v panic=%v", forms[fi], err, pv)
			}
			got, _ := qv.ToInteger()
			if want := freshThreshold(fi, lim); int(got) != want {
				return viol("C18", "limit_shifted_after_exit", "recursion form `%s` under limit %d: %d levels admitted after this exit, %d on a fresh runtime", forms[fi], lim, got, want)
			}
		}
	}
	return nil
}

func payloadEqual(a, b interface{}) bool {
	defer func() { recover() }()
	if a == nil || b == nil {
		return a == b
	}
	ta, tb := reflect.TypeOf(a), reflect.TypeOf(b)
	if ta != tb {
		return false
	}
	if ta.Comparable() {
		return a == b
	}
	return false
}

// judge applies the oracles to a faulted run R1 given the reference R0 (nil
// for class B).
func judge(c *StepCase, r0, r1 *RunResult) *Violation {
	r := r1.run
	if r.viol != nil {
		return r.viol
	}
	if r.overrun {
		if c.ClassB {
			return viol("C18", "irq_not_delivered", "class B program still running after %d steps although a panicking watchdog was scheduled", r1.Steps)
		}
		// only a schedule that cannot change the program's control flow (no-ops,
		// and panics, which end it) makes an overrun a violation: an interrupt
		// that sets the flag or lifts the stack limit, or a host-function fault
		// caught by the script, can legitimately send a fuel-bounded program down
		// a longer path than the step cap allows
		effectful := len(c.HostFaults) > 0
		for _, p := range r.pend {
			if p.delivered && (p.irq.Kind == "mutate" || p.irq.Kind == "setlimit") {
				effectful = true
			}
		}
		if effectful {
			r.st.Invalid++
			r.st.Probe("overrun_under_effectful_fault_discarded")
			return nil
		}
		return viol("C18", "runaway", "terminating program exceeded %d steps only under the fault schedule (reference: %d steps)", stepCapA, r0.Steps)
	}
	// oracle 1: delivery
	firstEffect := -1 // first step at which a non-noop function was delivered
	allNoop := true
	for _, p := range r.pend {
		if p.irq.Kind != "noop" {
			allNoop = false
		}
		// (one function is taken per poll; a run that an earlier interrupt function
		// ended by panicking legitimately leaves the rest of the queue untouched)
		if !p.delivered && p.irq.Pre && p.sent && !r.halted && !r1.Panicked && r1.Steps >= 2+len(r.pend) {
			return viol("C18", "irq_not_delivered", "a function queued on the channel before the script was started was never invoked although the script executed %d evaluation steps", r1.Steps)
		}
		if !p.delivered {
			continue
		}
		if p.gid != r.gid {
			return viol("C18", "irq_wrong_goroutine", "interrupt function ran on goroutine %s, Run was called on %s", p.gid, r.gid)
		}
		if p.deliveredAt-p.sentAt > deliveryBound {
			return viol("C18", "irq_not_delivered", "sent at %d delivered at %d", p.sentAt, p.deliveredAt)
		}
		if p.irq.Kind != "noop" && (firstEffect < 0 || p.deliveredAt < firstEffect) {
			firstEffect = p.deliveredAt
		}
	}
	// oracle 2 / 9: panic fidelity, nothing foreign
	if r1.Panicked {
		ok := false
		if r.halted && payloadEqual(r1.PanicVal, r.haltVal) {
			ok = true
		}
		if r.halted && r.haltJS {
			ok = true // the value may travel wrapped in otto's exception carrier
		}
		for _, hv := range r.hfVals {
			if payloadEqual(r1.PanicVal, hv) {
				ok = true
			}
		}
		if !ok {
			if r.halted {
				return viol("C18", "irq_panic_value_changed", "interrupt function panicked with %T(%v), Run panicked with %T(%v)", r.haltVal, r.haltVal, r1.PanicVal, r1.PanicVal)
			}
			return viol("C18", "foreign_panic", "Run panicked with %T(%v) which no fault injected", r1.PanicVal, r1.PanicVal)
		}
	} else if r.halted && r.haltJS && strings.Contains(r1.Err, "injected halt") {
		// an otto error value thrown by the interrupt function leaves Run as its error
	} else if r.halted {
		v := viol("C18", "irq_panic_lost", "interrupt function panicked with %T at step %d but Run returned normally (value %s, err %q)", r.haltVal, r.lastHaltStep(), r1.Value, r1.Err)
		v.Key = "irq-panic-intercepted-by-script-try"
		return v
	}
	if r0 != nil {
		// oracle 3: transparency
		if allNoop {
			if r1.Panicked != r0.Panicked || r1.Value != r0.Value || r1.Err != r0.Err || !sameJournal(r1.Journal, r0.Journal) || r1.Steps != r0.Steps {
				return viol("C18", "noop_irq_perturbed", "no-op interrupts changed the run: value %s/%s err %q/%q steps %d/%d journal %d/%d", r1.Value, r0.Value, r1.Err, r0.Err, r1.Steps, r0.Steps, len(r1.Journal), len(r0.Journal))
			}
		} else {
			// oracle 4: prefix up to the first effective delivery. An entry
			// stamped with step s was journaled after the poll of step s, so
			// entries with s < cut precede the delivery at step cut.
			cut := firstEffect
			if cut < 0 {
				cut = r1.Steps + 1
			}
			var pre []JEntry
			for _, e := range r1.Journal {
				if e.Step < cut {
					pre = append(pre, e)
				}
			}
			if !isPrefix(pre, r0.Journal) {
				return viol("C18", "journal_not_prefix", "journal before delivery step %d is not a prefix of the reference journal", cut)
			}
		}
	}
	if r.halted {
		hs := r.lastHaltStep()
		for _, e := range r1.Journal {
			if e.Step >= hs {
				return viol("C18", "continued_after_irq_panic", "journal entry %v after the panicking delivery at step %d", e, hs)
			}
		}
	}
	// cooperative cancel: a value set by a delivered interrupt function is what
	// scripts read from then on
	for _, p := range r.pend {
		if p.delivered && p.irq.Kind == "mutate" {
			fv, err := r.vm.Get("flag")
			if b, _ := fv.ToBoolean(); err != nil || !b {
				return viol("C18", "irq_mutation_lost", "flag set by a delivered interrupt function reads %v afterwards (err %v)", fv, err)
			}
			break
		}
	}
	return postChecks(c, r1)
}

// judgeHost: oracles for a run with an extra host-function fault.
func judgeHost(c *StepCase, r0, r1 *RunResult) *Violation {
	r := r1.run
	if r.viol != nil {
		return r.viol
	}
	if r.overrun {
		// a host-function panic that the script catches changes the control
		// flow; the longer path of a fuel-bounded program is not a violation
		r.st.Invalid++
		r.st.Probe("overrun_under_effectful_fault_discarded")
		return nil
	}
	if r1.Panicked {
		ok := false
		for _, hv := range r.hfVals {
			if payloadEqual(r1.PanicVal, hv) {
				ok = true
			}
		}
		if !ok {
			return viol("C18", "foreign_panic", "Run panicked with %T(%v) which no fault injected", r1.PanicVal, r1.PanicVal)
		}
	}
	n := r.faultJournalLen
	if !r.faulted {
		n = len(r1.Journal)
	}
	if n > len(r1.Journal) || !isPrefix(r1.Journal[:n], r0.Journal) {
		return viol("C18", "journal_not_prefix", "journal before the faulting host call is not a prefix of the reference journal")
	}
	return postChecks(c, r1)
}

// ---------------------------------------------------------------------------
// case generation

var irqKinds = []string{"noop", "panic_error", "panic_string", "mutate", "panic_int", "panic_struct", "panic_ptr", "setlimit", "panic_jsvalue"}
var hostKinds = []string{"go_string", "go_error", "js_type", "js_custom", "go_int", "go_struct"}
var anchors = []string{"abs", "after_b", "loop_head", "deep", "labelled", "frac"}

func genStepCase(t *rapid.T, tier string) *StepCase {
	c := &StepCase{Engine: "stepsim"}
	c.Seed = rapid.Uint64().Draw(t, "seed")
	c.Mode = "exhaustive"
	if rapid.IntRange(0, 2).Draw(t, "mode") == 2 {
		c.Mode = "seeded"
	}
	c.ClassB = rapid.IntRange(0, 2).Draw(t, "classB") == 2
	if rapid.IntRange(0, 2).Draw(t, "limit?") > 0 {
		c.StackLimit = rapid.IntRange(3, 40).Draw(t, "limit")
	}
	c.ChanCap = rapid.IntRange(0, 4).Draw(t, "cap")
	c.Entry = []string{"run", "run", "call", "valuecall", "eval"}[rapid.IntRange(0, 4).Draw(t, "entry")]
	c.LateChan = rapid.IntRange(0, 3).Draw(t, "latechan") == 3
	c.OnCopy = rapid.IntRange(0, 4).Draw(t, "oncopy") == 4 && c.Entry != "run" && c.Entry != ""
	c.Debugger = rapid.Bool().Draw(t, "dbg")
	c.TraceLimit = rapid.IntRange(0, 3).Draw(t, "trace")
	budget := rapid.IntRange(4, 40).Draw(t, "budget")
	if tier == "thorough" {
		c.Deep = true
		budget = rapid.IntRange(4, 90).Draw(t, "budget_deep")
	}
	g := newPG(t, budget, c.StackLimit > 0, c.ClassB)
	c.Decls, c.Body = g.Parts()
	if g.nHostF > 0 {
		n := rapid.IntRange(0, 2).Draw(t, "nhf")
		for i := 0; i < n; i++ {
			c.HostFaults = append(c.HostFaults, HostFault{
				Call: rapid.IntRange(1, 4).Draw(t, "hfcall"),
				Kind: hostKinds[rapid.IntRange(0, len(hostKinds)-1).Draw(t, "hfkind")],
			})
		}
	}
	if c.ClassB {
		c.Mode = "seeded"
	}
	if c.Mode == "seeded" {
		n := rapid.IntRange(0, 3).Draw(t, "nirq")
		for i := 0; i < n; i++ {
			q := Irq{Kind: irqKinds[rapid.IntRange(0, len(irqKinds)-1).Draw(t, "irqkind")]}
			q.Anchor = anchors[rapid.IntRange(0, len(anchors)-1).Draw(t, "anchor")]
			q.Index = rapid.IntRange(0, 400).Draw(t, "aidx")
			q.Off = rapid.IntRange(0, 3).Draw(t, "aoff")
			if rapid.IntRange(0, 4).Draw(t, "timed") == 4 {
				q.AtNs = int64(rapid.IntRange(1, 4000).Draw(t, "at_us")) * 1000
			}
			if rapid.IntRange(0, 5).Draw(t, "pre") == 5 {
				q.Pre, q.AtNs, q.Anchor, q.Index, q.Off = true, 0, "", 0, 0
			}
			c.Irqs = append(c.Irqs, q)
		}
		if c.ClassB {
			// the final watchdog: the only way a class B program ends
			kinds := []string{"panic_error", "panic_string", "panic_ptr"}
			c.Irqs = append(c.Irqs, Irq{
				Kind:   kinds[rapid.IntRange(0, 2).Draw(t, "wdkind")],
				Anchor: "abs",
				Index:  rapid.IntRange(0, stepCapB).Draw(t, "wdstep"),
			})
		}
	}
	return c
}

// resolve turns generation-time anchors into absolute steps using the
// reference run. After resolution the case is fully explicit.
func resolveIrqs(c *StepCase, r0 *RunResult) []Irq {
	out := make([]Irq, 0, len(c.Irqs))
	for _, q := range c.Irqs {
		if q.Anchor == "" {
			out = append(out, q)
			continue
		}
		n0 := stepCapB
		var al *anchorLog
		if r0 != nil {
			n0 = r0.Steps
			al = r0.run.anchors
		}
		pick := func(list []int) int {
			if len(list) == 0 {
				if n0 <= 0 {
					return 0
				}
				return q.Index % (n0 + 1)
			}
			return list[q.Index%len(list)] + q.Off
		}
		switch q.Anchor {
		case "abs":
			q.Step = q.Index
			if r0 != nil && n0 >= 0 {
				q.Step = q.Index % (n0 + 2)
			}
		case "frac":
			q.Step = (q.Index * (n0 + 1)) / 401
		case "after_b":
			if al != nil {
				q.Step = pick(al.afterB)
			} else {
				q.Step = q.Index
			}
		case "loop_head":
			if al != nil {
				q.Step = pick(al.loopHead)
			} else {
				q.Step = q.Index
			}
		case "deep":
			if al != nil {
				q.Step = pick(al.deep)
			} else {
				q.Step = q.Index
			}
		case "labelled":
			if al != nil {
				q.Step = pick(al.labelled)
			} else {
				q.Step = q.Index
			}
		}
		q.Anchor, q.Index, q.Off = "", 0, 0
		out = append(out, q)
	}
	sort.SliceStable(out, func(i, j int) bool { return out[i].Step < out[j].Step })
	return out
}

// ---------------------------------------------------------------------------
// engine entry

type stepEngine struct{}

func (stepEngine) Name() string     { return "stepsim" }
func (stepEngine) Property() string { return "C18" }

func (stepEngine) Init() {
	otto.VerifStep = stepHook
	st := NewStats()
	// expected continuation value: measured on a fresh runtime, not hand-computed
	c := &StepCase{Engine: "stepsim", Program: "1;", ChanCap: 1}
	r := &stepRun{c: c, st: st, rng: NewRng(1)}
	r.vm = otto.New()
	r.install()
	v, err, p, pv := protectedRun(r.vm, contSrc)
	if err != nil || p {
		fatalf("harness: continuation on fresh runtime: %v %v", err, pv)
	}
	contExpected = valStr(v)
	if m := checkEffects(r.journal, func() string { x, _ := r.vm.Run("__rb()"); return x.String() }()); m != "" {
		fatalf("harness: continuation effects on fresh runtime: %s", m)
	}
}

func (stepEngine) Gen(t *rapid.T, tier string) interface{} { return genStepCase(t, tier) }

func (stepEngine) Decode(b []byte) (interface{}, error) {
	c := &StepCase{}
	err := json.Unmarshal(b, c)
	return c, err
}

// Exec runs the case. It returns the violation (if any) and, when the
// violation was found by the exhaustive sweep, an explicit single-schedule
// version of the case for the replay file.
// Preflight enumerates the finite (recursion form x limit) grid completely.
func (e stepEngine) Preflight(st *Stats) (*Violation, interface{}) {
	switch preflightPart {
	case 1:
		return e.preflightInfinite(st)
	case 2:
		return e.preflightConstructs(st)
	}
	nf := len(recursionForms("r"))
	for f := 0; f < nf; f++ {
		for L := 2; L <= 14; L++ {
			c := &StepCase{Engine: "stepsim", Mode: "limitgrid", GridForm: f, StackLimit: L, ChanCap: 1}
			if v, rc, _ := e.Exec(c, st); v != nil {
				return v, rc
			}
		}
	}
	st.Probe("limit_grid_cells_enumerated")
	for f := 0; f < nf; f++ {
		if !strings.Contains(recursionForms("r")[f], "n+1") {
			continue
		}
		for _, d0 := range []int{1, 5, 11, 20} {
			for _, L := range []int{3, 7, 12} {
				c := &StepCase{Engine: "stepsim", Mode: "dynlimit", GridForm: f, StackLimit: L, DynAt: d0, ChanCap: 1}
				if v, rc, _ := e.Exec(c, st); v != nil {
					return v, rc
				}
			}
		}
	}
	st.Probe("dynamic_limit_grid_cells_enumerated")
	// functions (also bound ones) defined before a Copy(), run on the copy: its
	// limit and its interrupts must govern them
	for _, L := range []int{6, 9, 14} {
		for _, decl := range []string{
			"var D=0,K=-1;var rb=function(n){D++;if(n>=90)return 0;return rb(n+1)}.bind(null);function __cg(){try{rb(0)}catch(re){K=(re instanceof RangeError)?1:0;}emit('r',D,K);return D}\n",
			"var D=0,K=-1;function rp(n){D++;if(n>=90)return 0;return rp(n+1)}function __cg(){try{rp(0)}catch(re){K=(re instanceof RangeError)?1:0;}emit('r',D,K);return D}\n",
			"var D=0,K=-1;var ro={m:function(n){D++;if(n>=90)return 0;return ro.m(n+1)}};function __cg(){try{ro.m.call(ro,0)}catch(re){K=(re instanceof RangeError)?1:0;}emit('r',D,K);return D}\n",
		} {
			c := &StepCase{Engine: "stepsim", Mode: "copygrid", StackLimit: L, ChanCap: 1, Program: "", Decls: decl, Entry: "call", OnCopy: true}
			if v, rc, _ := e.Exec(c, st); v != nil {
				return v, rc
			}
		}
	}
	for _, spin := range []string{
		"var sb=function(){for(;;){}}.bind(null);function __cg(){sb()}\n",
		"function sp(){for(;;){}}function __cg(){sp.call(null)}\n",
	} {
		c := &StepCase{Engine: "stepsim", Mode: "copygrid", ClassB: true, ChanCap: 1, Decls: spin, Entry: "call", OnCopy: true, Irqs: []Irq{{Step: 7, Kind: "panic_error"}}}
		if v, rc, _ := e.Exec(c, st); v != nil {
			return v, rc
		}
	}
	st.Probe("copy_grid_cells_enumerated")
	return nil, nil
}

func (e stepEngine) preflightInfinite(st *Stats) (*Violation, interface{}) {
	// every construct that never ends on its own, entered through every route,
	// with a buffered and an unbuffered channel: a panicking watchdog must end it
	for si, shape := range infiniteShapes(txText(si0)) {
		for ei, entry := range []string{"run", "valuecall", "call", "eval"} {
			for _, capn := range []int{1, 0} {
				if (si+ei+capn)%2 == 1 && curTier != "thorough" {
					continue // quick: half of the (route, channel) combinations per construct
				}
				c := &StepCase{Engine: "stepsim", Mode: "seeded", ClassB: true, ChanCap: capn, Entry: entry, Body: "S.n++;\n" + shape + "\n",
					Irqs: []Irq{{Step: 2, Kind: "noop"}, {Step: 30 + si, Kind: []string{"panic_error", "panic_string", "panic_ptr"}[si%3]}}}
				if v, rc, _ := e.Exec(c, st); v != nil {
					return v, rc
				}
			}
		}
	}
	st.Probe("infinite_construct_grid_enumerated")
	return nil, nil
}

const si0 = 0

// stepConstructs: one small program per construct through which script code is
// entered (every callback-taking built-in, accessor, coercion, eval form, host
// re-entry route, bridged Go function, context reader, debugger handler, ...).
// Each is swept exhaustively - an interrupt of every kind at every step - once
// per run, so that no construct waits for the draw.
func stepConstructs() []string {
	tx := txText(0)
	fn := "function(x){var t;" + tx + "return x}"
	cs := []string{
		"[1,2].forEach(" + fn + ");", "[1,2].map(" + fn + ");", "[1,2,3].filter(" + fn + ");", "S.n+=[1,2].reduce(function(a,x){var t;" + tx + "return a+x},0);",
		"[3,1,2].sort(function(a,b){var t;" + tx + "return a-b});", "S.srt.sort(function(a,b){var t;" + tx + "return b-a});", "'aXbX'.replace(/X/g,function(m){var t;" + tx + "return m});",
		"JSON.stringify({toJSON:function(){var t;" + tx + "return 1}});", "JSON.stringify([1,2],function(k,v){var t;" + tx + "return v});", "JSON.parse('[1,2]',function(k,v){var t;" + tx + "return v});",
		"[1,2].some(" + fn + ");", "[1,2].every(" + fn + ");", "S.n+=hreflect(2," + fn + ");",
		"var o1={get p(){var t;" + tx + "return 1}};o1.p;", "var o2={set p(x){var t;" + tx + "}};o2.p=1;", "S.n+=+{valueOf:function(){var t;" + tx + "return 1}};", "(''+{toString:function(){var t;" + tx + "return 'x'}});",
		"try{(0,{toString:function(){var t;" + tx + "return 'x'}})()}catch(c1){}", "try{Number.prototype.toFixed.call({valueOf:function(){var t;" + tx + "return 1}},1)}catch(c2){}",
		"eval(" + strconv.Quote("var t;"+tx+"1") + ");", "(0,eval)(" + strconv.Quote("var t;"+tx+"1") + ");", "Function(" + strconv.Quote("var t;"+tx+"return 1") + ")();", "heval(" + strconv.Quote("var t;"+tx+"1") + ");",
		"function fa(n){var t;" + tx + "return n}\nhcall('fa',1);", "function fb(n){var t;" + tx + "return n}\nhvcall(fb,1);", "function fc(n){var t;" + tx + "return n}\nhrun('fc(1)');", "function fd(n){var t;" + tx + "return n}\nhobj(fd);",
		"function fe(n){var t;" + tx + "return n}\nfe.call(null,2);fe.apply({},[2]);fe.bind(null,2)();new fe(2);",
		"with({get wq(){var t;" + tx + "return 1}}){hctx();}", "debugger;" + tx, "try{throw 1}catch(c3){" + tx + "}finally{" + tx + "}", "try{try{throw 1}finally{" + tx + "}}catch(c4){" + tx + "}",
		"L1:for(var i=0;i<2;i++){L2:for(var j=0;j<2;j++){" + tx + "if(j)continue L1;}}", "switch(C++%2){case 0:" + tx + "case 1:" + tx + "break;default:}", "with({wx:1}){" + tx + "}",
		"for(var k in {a:1,b:2}){" + tx + "}", "var c5=(function(){var k=0;return function(){k++;var t;" + tx + "return k}})();c5();", "do{" + tx + "}while(C++<2);", "hf();" + tx + "hf();",
	}
	return cs
}

func (e stepEngine) preflightConstructs(st *Stats) (*Violation, interface{}) {
	for ci, body := range stepConstructs() {
		for ei, entry := range []string{"run", "valuecall"} {
			if (ci+ei)%2 == 1 && curTier != "thorough" {
				continue // quick: one entry route per construct
			}
			c := &StepCase{Engine: "stepsim", Mode: "exhaustive", ChanCap: 1, Entry: entry, Debugger: true, Body: "var t;\n" + body + "\n", Seed: uint64(ci + 1)}
			if v, rc, _ := e.Exec(c, st); v != nil {
				return v, rc
			}
		}
	}
	st.Probe("construct_grid_swept_exhaustively")
	return nil, nil
}

// execCopyGrid: one explicit case run on a Copy() (see Preflight).
func execCopyGrid(c *StepCase, st *Stats) (*Violation, interface{}, bool) {
	st.Fault("run_on_copy")
	st.NonTrivial++
	st.Sig(hashStr("copygrid", c.Decls, strconv.Itoa(c.StackLimit)))
	cc := *c
	cc.Body = "return __cg();" // the definition stage carries everything
	r1 := execRun(&cc, c.Irqs, true, st, false)
	if r1.run.viol != nil {
		return r1.run.viol, c, true
	}
	if c.ClassB {
		if v := judge(&cc, nil, r1); v != nil {
			return v, c, true
		}
		return nil, nil, true
	}
	if r1.run.overrun {
		return viol("C18", "stack_limit_not_enforced", "on a Copy(), limit %d: recursion did not stop within %d steps", c.StackLimit, r1.Steps), c, true
	}
	if r1.Panicked {
		return viol("C18", "foreign_panic", "on a Copy(): Call panicked with %T(%v)", r1.PanicVal, r1.PanicVal), c, true
	}
	d, k := -1, -2
	for _, e := range r1.Journal {
		if e.Tag == "r" {
			d, k = e.T, e.Kind
		}
	}
	if k != 1 || d > c.StackLimit {
		return viol("C18", "stack_limit_not_enforced", "a function defined before Copy() recursed on the copy under SetStackDepthLimit(%d): %d levels were admitted, RangeError caught by the script: %v", c.StackLimit, d, k == 1), c, true
	}
	if v := postChecks(&cc, r1); v != nil {
		return v, c, true
	}
	return nil, nil, true
}

// execDynLimit: the limit is tightened by a host function while a recursion
// is already d0 levels deep; nothing may be added on top of what is then
// admitted, and the recursion must end in a RangeError the script can catch.
func execDynLimit(c *StepCase, st *Stats) (*Violation, interface{}, bool) {
	form := recursionForms("r")[c.GridForm]
	cc := *c
	cc.Entry = "run"
	cc.Decls = "var D=0,K=-1;function r(n){D++;if(n==" + strconv.Itoa(c.DynAt) + ")hsetlimit(" + strconv.Itoa(c.StackLimit) + ");if(n>=90)return 0;return " + form + ";}\n"
	cc.Body = "try{r(0)}catch(re){K=(re instanceof RangeError)?1:0;}emit('r',D,K);\n"
	cc.StackLimit = 0
	st.Fault("stack_limit_set_mid_run")
	st.NonTrivial++
	st.Sig(hashStr("dynlimit", form, strconv.Itoa(c.DynAt), strconv.Itoa(c.StackLimit)))
	r1 := execRun(&cc, nil, true, st, false)
	cc.Mode, cc.StackLimit = "dynlimit", c.StackLimit
	fail := func(class, f string, a ...interface{}) (*Violation, interface{}, bool) {
		return viol("C18", class, "recursion form `%s`, limit %d set by a host function at depth %d: "+f, append([]interface{}{form, c.StackLimit, c.DynAt}, a...)...), c, true
	}
	if r1.run.viol != nil {
		return r1.run.viol, c, true
	}
	if r1.run.overrun {
		return fail("stack_limit_not_enforced", "recursion did not stop within %d steps", r1.Steps)
	}
	if r1.Panicked {
		return fail("foreign_panic", "Run panicked with %T(%v)", r1.PanicVal, r1.PanicVal)
	}
	k := -2
	for _, e := range r1.Journal {
		if e.Tag == "r" {
			k = e.Kind
		}
	}
	hostForm := strings.Contains(form, "hrun") || strings.Contains(form, "hcall") || strings.Contains(form, "hvcall") || strings.Contains(form, "heval") || strings.Contains(form, "hobj")
	if !hostForm && k != 1 {
		return fail("limit_error_not_catchable", "the script's catch clause did not receive a RangeError (K=%d, value %s, err %q)", k, r1.Value, r1.Err)
	}
	if v := postChecks(&cc, r1); v != nil {
		return v, c, true
	}
	return nil, nil, true
}

func gridCase(c *StepCase, L int) *StepCase {
	cc := *c
	cc.StackLimit = L
	cc.Entry = "run"
	cc.Decls = "var D=0,K=-1;function r(n){D++;return " + recursionForms("r")[c.GridForm] + ";}\n"
	cc.Body = "try{r(0)}catch(re){K=(re instanceof RangeError)?1:0;}emit('r',D,K);\n"
	return &cc
}

func execLimitGrid(c *StepCase, st *Stats) (*Violation, interface{}, bool) {
	form := recursionForms("r")[c.GridForm]
	count := func(L int) (int, bool, *RunResult, *StepCase) {
		gc := gridCase(c, L)
		r := execRun(gc, nil, true, st, false)
		n, re := 0, false
		for _, e := range r.Journal {
			if e.Tag == "r" {
				n = e.T
				re = e.Kind == 1
			}
		}
		return n, re, r, gc
	}
	L := c.StackLimit
	n1, re1, r1, gc1 := count(L)
	st.Fault("stack_limit_grid")
	st.Sig(hashStr("limitgrid", form, strconv.Itoa(L)))
	st.NonTrivial++
	fail := func(class, f string, a ...interface{}) (*Violation, interface{}, bool) {
		gc1.Mode = "limitgrid"
		return viol("C18", class, "recursion form `%s`, limit %d: "+f, append([]interface{}{form, L}, a...)...), gc1, true
	}
	if r1.run.viol != nil {
		gc1.Mode = "limitgrid"
		return r1.run.viol, gc1, true
	}
	if r1.run.overrun {
		return fail("stack_limit_not_enforced", "recursion did not stop within %d steps", r1.Steps)
	}
	if r1.Panicked {
		return fail("foreign_panic", "Run panicked with %T(%v)", r1.PanicVal, r1.PanicVal)
	}
	if n1 > L-1 {
		return fail("limit_not_exact", "%d nested calls of r were admitted, at most %d may be", n1, L-1)
	}
	if c.GridForm == 0 && n1 != L-1 {
		return fail("limit_not_exact", "direct recursion admitted %d nested calls, documented %d", n1, L-1)
	}
	hostForm := strings.Contains(form, "hrun") || strings.Contains(form, "hcall") || strings.Contains(form, "hvcall") || strings.Contains(form, "heval") || strings.Contains(form, "hobj")
	if !hostForm && !re1 {
		return fail("limit_error_not_catchable", "the script's catch clause did not receive a RangeError (value %s, err %q)", r1.Value, r1.Err)
	}
	n2, _, r2, _ := count(L + 1)
	if r2.run.viol == nil && !r2.run.overrun && n2 < n1 {
		return fail("limit_not_monotone", "limit %d admitted %d calls but limit %d only %d", L, n1, L+1, n2)
	}
	if v := postChecks(gc1, r1); v != nil {
		gc1.Mode = "limitgrid"
		return v, gc1, true
	}
	return nil, nil, true
}

func (stepEngine) Exec(ci interface{}, st *Stats) (*Violation, interface{}, bool) {
	c := ci.(*StepCase)
	if c.Mode == "limitgrid" {
		return execLimitGrid(c, st)
	}
	if c.Mode == "dynlimit" {
		return execDynLimit(c, st)
	}
	if c.Mode == "copygrid" {
		return execCopyGrid(c, st)
	}
	st.Cases++
	var r0 *RunResult
	if !c.ClassB {
		r0 = execRun(c, nil, true, st, true)
		if r0.run.overrun {
			st.Invalid++
			return nil, nil, false // invalid: reference does not terminate within the cap
		}
		if r0.run.viol != nil {
			return r0.run.viol, c, true
		}
		if r0.Panicked {
			ok := false
			for _, hv := range r0.run.hfVals {
				if payloadEqual(r0.PanicVal, hv) {
					ok = true
				}
			}
			if !ok {
				return viol("C18", "foreign_panic", "fault-free run panicked with %T(%v)", r0.PanicVal, r0.PanicVal), c, true
			}
			st.Probe("host_panic_escaped_run")
		} else if r0.Err != "" {
			st.Probe("reference_ended_with_error")
			if strings.Contains(r0.Err, "RangeError") {
				st.Fault("stack_limit_uncaught")
			} else {
				st.Fault("uncaught_throw")
			}
		}
		for _, e := range r0.Journal {
			if e.Tag == "r" && e.Kind == 1 {
				st.Fault("stack_limit_caught")
			}
		}
		// R0': polling itself must not perturb
		r0n := execRun(c, nil, false, st, false)
		if r0n.Panicked != r0.Panicked || r0n.Value != r0.Value || r0n.Err != r0.Err || !sameJournal(r0n.Journal, r0.Journal) || r0n.Steps != r0.Steps {
			return viol("C18", "polling_perturbs", "run with Interrupt==nil differs from run with a silent channel"), c, true
		}
		if v := postChecks(c, r0); v != nil {
			return v, c, true
		}
		if v := postChecks(c, r0n); v != nil {
			return v, c, true
		}
	}
	if c.Mode == "exhaustive" {
		st.Exhaustive++
		n0 := r0.Steps
		ks := make([]int, 0, n0+1)
		sweepAll := 400
		if c.Deep {
			sweepAll = 2000
		}
		if n0 <= sweepAll {
			for k := 0; k <= n0; k++ {
				ks = append(ks, k)
			}
		} else {
			st.Exhaustive--
			seen := map[int]bool{}
			add := func(k int) {
				if k >= 0 && k <= n0 && !seen[k] {
					seen[k] = true
					ks = append(ks, k)
				}
			}
			for _, b := range r0.run.anchors.afterB {
				add(b - 1)
				add(b)
				add(b + 1)
			}
			rng := NewRng(c.Seed ^ 0xabcdef)
			for len(ks) < 400 {
				add(rng.Intn(n0 + 1))
			}
			sort.Ints(ks)
		}
		for _, kind := range []string{"noop", "panic_error", "panic_string", "panic_jsvalue"} {
			for ki, k := range append([]int{-1}, ks...) {
				irqs := []Irq{{Step: k, Kind: kind}}
				if ki == 0 {
					irqs = []Irq{{Kind: kind, Pre: true}} // queued before the script starts
				}
				r1 := execRun(c, irqs, true, st, false)
				if delivered(r1) {
					st.NonTrivial++
				}
				if v := judge(c, r0, r1); v != nil {
					cc := *c
					cc.Mode = "seeded"
					cc.Irqs = irqs
					return v, &cc, true
				}
			}
		}
		// host-function panic at every host call of the program (the analogue of
		// the interrupt sweep for the "panic from a host function" clause)
		hostAll := 150
		if c.Deep {
			hostAll = 600
		}
		if m := r0.run.anyCalls; m > 0 && m <= hostAll {
			for _, kind := range []string{"go_string", "go_error", "js_custom"} {
				for j := 1; j <= m; j++ {
					cc := *c
					cc.Mode = "seeded"
					cc.Irqs = nil
					cc.HostFaults = append(append([]HostFault(nil), c.HostFaults...), HostFault{Call: j, Kind: kind, Any: true})
					r1 := execRun(&cc, nil, true, st, false)
					st.NonTrivial++
					if v := judgeHost(&cc, r0, r1); v != nil {
						return v, &cc, true
					}
				}
			}
			st.Probe("host_panic_swept_at_every_host_call")
		}
		return nil, nil, true
	}
	irqs := resolveIrqs(c, r0)
	cc := *c
	cc.Irqs = irqs
	r1 := execRun(&cc, irqs, true, st, false)
	if delivered(r1) {
		st.NonTrivial++
	}
	if len(irqs) > 1 {
		nd := 0
		for _, p := range r1.run.pend {
			if p.delivered {
				nd++
			}
		}
		if nd > 1 {
			st.Probe("multiple_irqs_delivered")
		}
	}
	if v := judge(&cc, r0, r1); v != nil {
		return v, &cc, true
	}
	return nil, nil, true
}

func delivered(r *RunResult) bool {
	for _, p := range r.run.pend {
		if p.delivered {
			return true
		}
	}
	return false
}
