// Heap dumper and generic mutator, installed once in the root runtime before
// any workload. It keeps private references to every intrinsic it needs, never
// calls a method through a (possibly modified) prototype, never invokes a user
// getter, and has no side effect on the heap it walks.
(function(G){
  var gopn=Object.getOwnPropertyNames, gopd=Object.getOwnPropertyDescriptor, gpo=Object.getPrototypeOf,
      isExt=Object.isExtensible, okeys=Object.keys, defProp=Object.defineProperty,
      freeze=Object.freeze, seal=Object.seal, prevExt=Object.preventExtensions, create=Object.create;
  var call=Function.prototype.call;
  var classOf=call.bind(Object.prototype.toString), fnSrc=call.bind(Function.prototype.toString),
      hasOwn=call.bind(Object.prototype.hasOwnProperty),
      numVal=call.bind(Number.prototype.valueOf), strVal=call.bind(String.prototype.valueOf),
      boolVal=call.bind(Boolean.prototype.valueOf), dateVal=call.bind(Date.prototype.getTime),
      dateSet=call.bind(Date.prototype.setTime), reExec=call.bind(RegExp.prototype.exec),
      join=call.bind(Array.prototype.join), apush=call.bind(Array.prototype.push),
      bindf=call.bind(Function.prototype.bind);
  var vid=__vid, vreset=__vreset, Str=String;
  var K={Date:Date,Error:Error,EvalError:EvalError,TypeError:TypeError,RangeError:RangeError,
         ReferenceError:ReferenceError,SyntaxError:SyntaxError,URIError:URIError,Object:Object,
         String:String,Number:Number,Boolean:Boolean,RegExp:RegExp,Array:Array,Function:Function,
         parse:JSON.parse, decodeURI:decodeURI, geval:eval};
  var VOC=['m0','m1','m2','m3','pk0','pk5','pk10','pk15','pk20','touched','added','t6','t9','hid','inj','n0','n5'];
  function prim(v){
    var t=typeof v;
    if(t==='number'){ if(v===0&&1/v<0) return 'n:-0'; return 'n:'+v; }
    if(t==='string') return 's'+v.length+':'+v;
    if(t==='undefined') return 'u';
    if(v===null) return 'null';
    return 'b:'+Str(v);
  }
  function ref(v,q){
    var t=typeof v;
    if(v!==null&&(t==='object'||t==='function')){
      var r=vid(v), first=r%2;
      if(first===1){ q[q.length]=v; }
      return '#'+((r-first)/2);
    }
    return prim(v);
  }
  function record(o,q,anon){
    var names=gopn(o), j, d, nm, c=classOf(o), s;
    s=(anon?'probe':'obj '+ref(o,q))+' '+c+' ext='+isExt(o)+' proto='+ref(gpo(o),q)+' keys=['+join(okeys(o),',')+']';
    if(typeof o==='function'){ s+=' src='+fnSrc(o); }
    try{
      if(c==='[object Number]') s+=' nv='+prim(numVal(o));
      else if(c==='[object String]') s+=' sv='+prim(strVal(o));
      else if(c==='[object Boolean]') s+=' bv='+prim(boolVal(o));
      else if(c==='[object Date]') s+=' dv='+prim(dateVal(o));
    }catch(e){ s+=' pv=!'; }
    for(j=0;j<VOC.length;j++){
      if(hasOwn(o,VOC[j])){ var listed=false; for(var jj=0;jj<names.length;jj++){ if(names[jj]===VOC[j]){listed=true;break;} } if(!listed) s+='\n  '+VOC[j]+' <present-by-name-but-not-listed>'; }
    }
    for(j=0;j<names.length;j++){
      nm=names[j]; d=gopd(o,nm);
      if(!d){ s+='\n  '+nm+' <nodesc>'; continue; }
      if(hasOwn(d,'value')){
        s+='\n  '+nm+' V '+ref(d.value,q)+' '+(d.writable?'w':'-')+(d.enumerable?'e':'-')+(d.configurable?'c':'-');
      }else{
        s+='\n  '+nm+' A '+ref(d.get,q)+' '+ref(d.set,q)+' '+(d.enumerable?'e':'-')+(d.configurable?'c':'-');
      }
    }
    return s;
  }
  function probes(){
    var p=[[],{},function(){},/x/g,new K.Date(0),new K.Error('x'),new K.EvalError('x'),new K.TypeError('x'),
           new K.RangeError('x'),new K.ReferenceError('x'),new K.SyntaxError('x'),new K.URIError('x'),
           new K.String('s'),new K.Number(1),new K.Boolean(true),K.Object('t'),K.Object(2),K.Object(false),
           (function(){return arguments})(1,2),K.parse('{"a":[1]}'),K.parse('[1]'),K.Array(3),new K.RegExp('y','i'),
           K.Function('return 1'),bindf(function(){},null)];
    try{null.x}catch(e1){p[p.length]=e1}
    try{undefinedVariable__}catch(e2){p[p.length]=e2}
    try{new K.Array(-1)}catch(e3){p[p.length]=e3}
    try{K.decodeURI('%')}catch(e4){p[p.length]=e4}
    try{K.geval('(')}catch(e5){p[p.length]=e5}
    try{(1)()}catch(e6){p[p.length]=e6}
    return p;
  }
  function walk(withOut){
    vreset();
    var q=[], out=[], i, p;
    ref(G,q);
    p=probes();
    for(i=0;i<p.length;i++){ var r=record(p[i],q,true); if(withOut) out[out.length]=r; }
    for(i=0;i<q.length;i++){ var r2=record(q[i],q,false); if(withOut) out[out.length]=r2; }
    return withOut?join(out,'\n'):q;
  }
  G.__dump=function(){ return walk(true); };
  G.__count=function(){ return walk(false).length; };
  // generic mutator: applies mutation `kind` to the n-th object in walk order
  G.__mut=function(n,kind,arg){
    var q=walk(false), o=q[n%q.length], names, k, d, c;
    try{
      c=classOf(o); names=gopn(o);
      switch(kind){
      case 0: o['m'+(arg%4)]=arg; return 'add';
      case 1: if(names.length===0) return 'noprops'; k=names[arg%names.length]; return 'delete '+k+' '+(delete o[k]);
      case 2: k=names.length?names[arg%names.length]:'z'; d=gopd(o,k)||{value:arg,configurable:true};
              if(hasOwn(d,'value')){ defProp(o,k,{value:d.value,writable:false,enumerable:!d.enumerable,configurable:d.configurable}); }
              else { defProp(o,k,{get:d.get,set:undefined,enumerable:!d.enumerable,configurable:d.configurable}); }
              return 'redefine '+k;
      case 3: if(arg%3===0) freeze(o); else if(arg%3===1) seal(o); else prevExt(o); return 'freeze'+(arg%3);
      case 4: var pr=gpo(o); if(pr){ pr['pm'+arg]=arg; return 'protoadd'; } return 'noproto';
      case 5: if(c==='[object Array]'){ if(arg%3===0) apush(o,arg); else if(arg%3===1) o.length=arg%4; else o[arg%7]={ix:arg}; return 'array'+(arg%3); }
              o[arg%5]=arg; return 'index';
      case 6: if(c==='[object RegExp]'){ o.lastIndex=arg%5; reExec(o,'xxaxxaxx'); return 'regexp'; }
              if(c==='[object Date]'){ dateSet(o,arg*1000); return 'date'; }
              o.t6=arg; return 'plain6';
      case 7: k=names.length?names[arg%names.length]:'a7'; defProp(o,k,{get:function(){return arg},set:function(v){o['s'+arg]=v},enumerable:true,configurable:true}); return 'accessor '+k;
      case 8: if(names.length===0) return 'noprops'; k=names[arg%names.length]; o[k]=arg; return 'assign '+k;
      case 9: if(c==='[object Arguments]'){ if(arg%2) delete o[0]; else o[0]='A'+arg; return 'arguments'; }
              if(typeof o==='function'&&hasOwn(o,'prototype')&&o.prototype){ o.prototype['pp'+arg]=arg; return 'fnproto'; }
              o.t9=arg; return 'plain9';
      case 10: k='n'+arg; defProp(o,k,{value:{nested:arg},writable:arg%2===0,enumerable:arg%3===0,configurable:arg%5!==0}); return 'define '+k;
      }
      return 'nokind';
    }catch(e){ return 'E:'+(e&&e.name); }
  };
  // __poke(v): type-directed mutation of everything hanging off H and R (and one
  // level below), so that each kind of internal reference the cloner handles is
  // actually written through on the node it is applied to.
  function pokeOne(o,v,depth){
    var c, names, d, k, i;
    if(o===null||(typeof o!=='object'&&typeof o!=='function')) return;
    c=classOf(o);
    try{
      if(c==='[object Arguments]'){
        if(v%3===0) delete o[0]; else if(v%3===1) o[1]='pk'+v; else o[0]='pz'+v;
        return;
      }
      if(typeof o==='function'){ try{ o(v); }catch(e1){} if(hasOwn(o,'prototype')&&o.prototype&&v%4===0) o.prototype['pk'+v]=v; return; }
      if(c==='[object Error]'){ o.stack='pk'+v; if(v%2) o.message='pm'+v; }
      if(c==='[object RegExp]'){ reExec(o,'aaxaa'); return; }
      if(c==='[object Date]'){ dateSet(o,dateVal(o)+v+1); return; }
      if(c==='[object Array]'){
        if(v%4===0) apush(o,'pk'+v); else if(v%4===1) o.length=(o.length>1?o.length-1:0); else if(v%4===2) o[o.length+2]=v; else if(o.length) delete o[0];
      }
      names=gopn(o);
      if(v%5===0){ o['pk'+v]=v; }
      else if(v%5===1&&names.length){ delete o[names[v%names.length]]; }
      else if(v%5===2&&names.length){ k=names[v%names.length]; d=gopd(o,k); if(d&&hasOwn(d,'value')&&d.configurable) defProp(o,k,{value:d.value,enumerable:!d.enumerable,writable:d.writable,configurable:true}); }
      else if(v%5===3&&names.length){ k=names[v%names.length]; d=gopd(o,k); if(d&&hasOwn(d,'set')&&d.set){ o[k]=v; } else if(d&&d.writable){ o[k]='pv'+v; } }
      else if(v%11===4){ if(v%2) freeze(o); else prevExt(o); }
      if(depth<1){
        names=gopn(o);
        for(i=0;i<names.length&&i<6;i++){ d=gopd(o,names[i]); if(d&&hasOwn(d,'value')) pokeOne(d.value,v+i+1,depth+1); }
      }
    }catch(e){}
  }
  G.__poke=function(v){
    var roots=[], i, names, d, HH, RR;
    d=gopd(G,'H'); HH=d&&hasOwn(d,'value')?d.value:null;
    d=gopd(G,'R'); RR=d&&hasOwn(d,'value')?d.value:null;
    if(HH!==null&&typeof HH==='object'){
      names=gopn(HH);
      for(i=0;i<names.length;i++){ d=gopd(HH,names[i]); if(d&&hasOwn(d,'value')&&(i+v)%2===0) pokeOne(d.value,v+i,0); }
    }
    if(RR!==null&&typeof RR==='object'){
      names=gopn(RR);
      for(i=0;i<names.length;i++){ d=gopd(RR,names[i]); if(d&&hasOwn(d,'value')&&d.value&&typeof d.value.inc==='function'&&(i+v)%2===1){ try{ d.value.inc(v); }catch(e2){} } }
    }
    return 'poked';
  };
})(this);
