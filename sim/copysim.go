package main

import (
	_ "embed"
	"encoding/json"
	"fmt"
	"reflect"
	"strconv"
	"strings"

	"github.com/robertkrimen/otto"
	"pgregory.net/rapid"
)

// copysim (C17): a tree of runtimes grown by Copy(); every node has a twin, a
// fresh runtime on which the node's whole lineage is replayed. After every
// operation, for every node, dump(node) must equal dump(twin) and every
// program must have produced the same result and host-call trace on both.
// See DESIGN.md §4 C17.

//go:embed js/dumper.js
var dumperJS string

type COp struct {
	Kind  string   `json:"kind"` // run | copy | mut | abort | interleave
	Node  int      `json:"node"`
	Src   string   `json:"src,omitempty"`
	N     int      `json:"n,omitempty"`    // mut: object index
	MKind int      `json:"mk,omitempty"`   // mut: mutation kind
	Arg   int      `json:"arg,omitempty"`  // mut: argument
	Step  int      `json:"step,omitempty"` // abort: step at which the program is killed
	Nodes []int    `json:"nodes,omitempty"`
	Srcs  []string `json:"srcs,omitempty"`
	Seed  uint64   `json:"seed,omitempty"` // interleave: scheduler seed
}

type CopyCase struct {
	Engine string `json:"engine"`
	Limit  int    `json:"stack_limit"`
	Trace  int    `json:"trace_limit"`
	Ops    []COp  `json:"ops"`
	// Sparse: heap dumps only after Copy operations and at the end of the
	// history (a leaked mutation stays visible until then)
	Sparse bool `json:"sparse,omitempty"`
}

type cnode struct {
	id      int
	vm      *otto.Otto
	twin    *otto.Otto
	lineage []COp // operations that shaped this node, inherited ones included
}

// per-runtime harness state, found through FunctionCall.Otto (copies share
// the Go closures of host functions, so state cannot live in the closure)
type crt struct {
	trace []string
	ids   map[uintptr]int
	abort int // step at which to kill the running program (-1: never)
	steps int
	nid   int
	// a function to send on the runtime's Interrupt channel once step sendAt
	// has been passed (midcopy / halt operations)
	sendAt int
	sendFn func()
	sent   bool
}

var crts = map[*otto.Otto]*crt{}

func crtOf(o *otto.Otto) *crt {
	c := crts[o]
	if c == nil {
		c = &crt{ids: map[uintptr]int{}, abort: -1, sendAt: -1}
		crts[o] = c
	}
	return c
}

func objPtr(v otto.Value) uintptr {
	f := reflect.ValueOf(v).FieldByName("value")
	if f.Kind() == reflect.Interface && !f.IsNil() {
		e := f.Elem()
		if e.Kind() == reflect.Ptr {
			return e.Pointer()
		}
	}
	return 0
}

func installCopy(vm *otto.Otto) {
	must := func(err error) {
		if err != nil {
			fatalf("harness: Set: %v", err)
		}
	}
	must(vm.Set("__vid", func(call otto.FunctionCall) otto.Value {
		c := crtOf(call.Otto)
		p := objPtr(call.Argument(0))
		id, ok := c.ids[p]
		first := 0
		if !ok {
			id = len(c.ids)
			c.ids[p] = id
			first = 1
		}
		v, _ := otto.ToValue(id*2 + first)
		return v
	}))
	must(vm.Set("__vreset", func(call otto.FunctionCall) otto.Value {
		crtOf(call.Otto).ids = map[uintptr]int{}
		return otto.UndefinedValue()
	}))
	must(vm.Set("rec", func(call otto.FunctionCall) otto.Value {
		c := crtOf(call.Otto)
		c.trace = append(c.trace, "rec "+call.Argument(0).String())
		return otto.UndefinedValue()
	}))
	must(vm.Set("emit", func(call otto.FunctionCall) otto.Value {
		c := crtOf(call.Otto)
		c.trace = append(c.trace, "emit "+call.Argument(0).String()+" "+call.Argument(1).String()+" "+call.Argument(2).String())
		return otto.UndefinedValue()
	}))
	must(vm.Set("nid", func(call otto.FunctionCall) otto.Value {
		c := crtOf(call.Otto)
		c.nid++
		v, _ := otto.ToValue(c.nid)
		return v
	}))
	// Go functions bridged through reflection: what they return is converted into
	// script values of the runtime that called them
	must(vm.Set("hslice", func(n int) []string { return []string{"a", "b", strconv.Itoa(n)} }))
	must(vm.Set("hpair", func(a, b int) (int, string) { return a + b, "s" }))
	must(vm.Set("hvcall", func(call otto.FunctionCall) otto.Value {
		v, err := call.Argument(0).Call(otto.NullValue(), call.Argument(1))
		if err != nil {
			panic(call.Otto.MakeCustomError("HostError", err.Error()))
		}
		return v
	}))
	if _, err := vm.Run(dumperJS); err != nil {
		fatalf("harness: dumper: %v", err)
	}
	if _, err := vm.Run("var R=[], H={};"); err != nil {
		fatalf("harness: roots: %v", err)
	}
}

func copyHook(o *otto.Otto, kind otto.VerifStepKind, node interface{}) {
	if msActive() {
		msYield(int(kind))
	}
	c := crts[o]
	if c == nil {
		return
	}
	c.steps++
	if c.sendAt >= 0 && c.steps > c.sendAt && !c.sent && o.Interrupt != nil {
		c.sent = true
		select {
		case o.Interrupt <- c.sendFn:
		default:
		}
	}
	if c.abort >= 0 && c.steps > c.abort {
		panic(harnessAbort{"abort op"})
	}
	if c.steps > 3000000 {
		// a mutated workload that no longer terminates: cut it off, identically on node and twin
		panic(harnessAbort{"step cap"})
	}
}

// runOn executes src on vm and returns a result line; the host-call trace is
// appended to the runtime's trace.
func runOn(vm *otto.Otto, src string, abortAt int) string {
	c := crtOf(vm)
	c.abort, c.steps = abortAt, 0
	defer func() { c.abort = -1 }()
	res := ""
	func() {
		defer func() {
			if x := recover(); x != nil {
				if _, ok := x.(harnessAbort); ok {
					res = "ABORTED"
					return
				}
				res = fmt.Sprintf("PANIC %T %v", x, x)
			}
		}()
		v, err := vm.Run(src)
		if err != nil {
			res = "ERR " + err.Error()
		} else {
			res = "VAL " + valStr(v)
		}
	}()
	if d, l := vm.VerifScopeDepth(), vm.VerifLabelCount(); d != 0 || l != 0 {
		res += fmt.Sprintf(" NOT-AT-REST %d %d", d, l)
	}
	return res
}

// runOnSending executes src on vm with an interrupt channel installed; once
// step sendAt has been passed fn is sent on it, so that it runs on the
// interpreter's goroutine at the next poll (the same instant on every runtime
// that executes the same program from the same state).
func runOnSending(vm *otto.Otto, src string, sendAt int, fn func()) string {
	c := crtOf(vm)
	vm.Interrupt = make(chan func(), 1)
	c.sendAt, c.sendFn, c.sent = sendAt, fn, false
	defer func() {
		c.sendAt, c.sendFn = -1, nil
		vm.Interrupt = nil
	}()
	return runOn(vm, src, -1)
}

func dumpOf(vm *otto.Otto) string {
	var s string
	// the step cap is per program: the dumper starts from zero like every
	// program does (it used to inherit the count of the runtime's last program,
	// so a dump taken after a long program could be cut off on the node and not
	// on its twin)
	crtOf(vm).steps = 0
	func() {
		defer func() {
			if x := recover(); x != nil {
				s = fmt.Sprintf("DUMP-PANIC %T %v", x, x)
			}
		}()
		v, err := vm.Run("__dump()")
		if err != nil {
			s = "DUMP-ERR " + err.Error()
			return
		}
		s = v.String()
	}()
	return s
}

func diffLines(a, b string) string {
	la, lb := strings.Split(a, "\n"), strings.Split(b, "\n")
	for i := 0; i < len(la) && i < len(lb); i++ {
		if la[i] != lb[i] {
			ctx := ""
			for j := i; j >= 0 && j > i-40; j-- {
				if strings.HasPrefix(la[j], "obj ") || strings.HasPrefix(la[j], "probe") {
					ctx = clip(la[j])
					break
				}
			}
			return fmt.Sprintf("line %d: node %q vs twin %q (in %s)", i, clip(la[i]), clip(lb[i]), ctx)
		}
	}
	return fmt.Sprintf("lengths differ: %d vs %d lines", len(la), len(lb))
}

// applyOp applies a (non-copy) operation to one runtime.
func applyOp(vm *otto.Otto, op *COp) string {
	switch op.Kind {
	case "run":
		return runOn(vm, op.Src, -1)
	case "abort":
		return runOn(vm, op.Src, op.Step)
	case "mut":
		return runOn(vm, "__mut("+strconv.Itoa(op.N)+","+strconv.Itoa(op.MKind)+","+strconv.Itoa(op.Arg)+")", -1)
	case "midcopy":
		// on the runtime that is being copied (and on its twin) the operation is
		// an ordinary run: taking a copy must not perturb the original
		return runOn(vm, op.Src, -1)
	case "halt":
		// the program is stopped by an interrupt function that panics (not
		// catchable by the script) at the poll that follows step op.Step
		return runOnSending(vm, op.Src, op.Step, func() { panic(harnessAbort{"halt"}) })
	}
	fatalf("applyOp: kind %q", op.Kind)
	return ""
}

var rootTraceLimit int

func newRoot(limit int) *otto.Otto {
	vm := otto.New()
	if limit <= 0 {
		limit = 120 // workloads may recurse without bound once mutated; a limit turns that into a RangeError
	}
	vm.SetStackDepthLimit(limit)
	if rootTraceLimit > 0 {
		vm.SetStackTraceLimit(rootTraceLimit)
	} else if rootTraceLimit < 0 {
		vm.SetStackTraceLimit(0) // 0 is a legal setting: no limit
	}
	installCopy(vm)
	return vm
}

// twinOf replays a lineage on a fresh runtime.
func twinOf(limit int, lineage []COp) *otto.Otto {
	vm := newRoot(limit)
	for i := range lineage {
		applyOp(vm, &lineage[i])
	}
	return vm
}

type copyEngine struct{}

func (copyEngine) Name() string     { return "copysim" }
func (copyEngine) Property() string { return "C17" }
func (copyEngine) Init()            { otto.VerifStep = copyHook }
func (copyEngine) Decode(b []byte) (interface{}, error) {
	c := &CopyCase{}
	err := json.Unmarshal(b, c)
	return c, err
}

// Preflight: Copy() taken at every poll of two fixed programs that pass through
// every kind of execution context (direct and nested eval code, Function code,
// with and catch environments, closures, getters, native callbacks).
func (e copyEngine) Preflight(st *Stats) (*Violation, interface{}) {
	progs := []string{
		"var pf0=0;function pfa(n){var loc=n;with({w:n}){try{throw n}catch(ce){pf0+=eval('var ev=ce+w+loc;eval(\"ev+1\")')}}return pf0}" +
			"H.pf=[pfa(1),pfa(2)];H.pfe=eval('(function(){var c=0;return function(){return eval(\"++c\")}})()');H.pfe();H.pfn=Function('a','return eval(\"a*2\")')(4);",
		"H.pg={get g(){return [3,1,2].sort(function(a,b){return eval('a-b')}).join()}};H.pgs=H.pg.g;H.pgm=[1,2].map(function(x){return JSON.stringify({k:x},function(k,v){return v})});" +
			"H.pgr='a1b2'.replace(/\\d/g,function(m){return eval('m*2')});",
	}
	// quick: one limit and every third poll (offset chosen by the PRNG value);
	// thorough: three limits, every poll
	limits, stride, off := []int{30}, 3, int(curBatchSeed%3)
	if curTier == "thorough" {
		limits, stride, off = []int{0, 30, 31}, 1, 0
	}
	for pi, prog := range progs {
		if preflightPart != pi {
			continue // parts 0 and 1: one program each
		}
		for _, limit := range limits {
			for step := off; step < 400; step += stride {
				taken := st.Probes["copy_taken_mid_run"]
				c := &CopyCase{Engine: "copysim", Limit: limit, Ops: []COp{
					{Kind: "run", Node: 0, Src: "H.base" + strconv.Itoa(pi) + "={a:1,b:[1,2]};"},
					{Kind: "midcopy", Node: 0, Src: prog, Step: step},
					{Kind: "copy", Node: 1},
				}}
				if v, rc, _ := e.Exec(c, st); v != nil {
					return v, rc
				}
				if st.Probes["copy_taken_mid_run"] == taken {
					break // the program ended before this poll
				}
			}
		}
	}
	st.Probe("midcopy_at_every_poll_enumerated")
	// every heap builder, copied, then written through on the copy and on the
	// original by the type-directed mutator with each of its variants: whatever
	// kind of internal reference a builder creates is exercised once per run
	// instead of waiting for the draw
	frs := heapFragments(1)
	if preflightPart != 2 {
		frs = nil // part 2
	}
	for fi, fr := range frs {
		if curTier != "thorough" && (fi+int(curBatchSeed))%2 == 1 {
			continue // quick: half of the builders per run, chosen by the PRNG value
		}
		c := &CopyCase{Engine: "copysim", Limit: 0, Sparse: true, Ops: []COp{
			{Kind: "run", Node: 0, Src: fr},
			{Kind: "copy", Node: 0},
		}}
		for v := 0; v < 12; v++ {
			c.Ops = append(c.Ops, COp{Kind: "run", Node: 1 - v%2, Src: "__poke(" + strconv.Itoa(v) + ")"})
			if v == 5 {
				c.Ops = append(c.Ops, COp{Kind: "copy", Node: 1})
			}
		}
		c.Ops = append(c.Ops, COp{Kind: "run", Node: 2, Src: "__poke(3);__poke(4)"})
		if v, rc, _ := e.Exec(c, st); v != nil {
			return v, rc
		}
	}
	st.Probe("heap_builders_poked_enumerated")
	return nil, nil
}

func (copyEngine) Exec(ci interface{}, st *Stats) (*Violation, interface{}, bool) {
	c := ci.(*CopyCase)
	st.Cases++
	crts = map[*otto.Otto]*crt{}
	rootTraceLimit = c.Trace
	v := execCopy(c, st)
	if v != nil {
		return v, c, true
	}
	return nil, nil, true
}

func execCopy(c *CopyCase, st *Stats) *Violation {
	st.Runs++
	root := &cnode{id: 0, vm: newRoot(c.Limit), twin: newRoot(c.Limit)}
	nodes := []*cnode{root}
	twinDump := map[int]string{}
	var only map[int]bool // nil: every node
	checkAll := func(when string) *Violation {
		for _, n := range nodes {
			if only != nil && !only[n.id] {
				continue
			}
			dn := dumpOf(n.vm)
			if eventLogOn {
				ev("dump", n.id, hashStr(dn))
			}
			dt, ok := twinDump[n.id]
			if !ok {
				dt = dumpOf(n.twin)
				twinDump[n.id] = dt
			}
			st.Steps++
			if strings.HasPrefix(dn, "DUMP-") || strings.HasPrefix(dt, "DUMP-") {
				if dn == dt {
					continue // the dumper fails identically on both: nothing to compare
				}
			}
			if dn != dt {
				return viol("C17", "dump_diverged", "%s: node %d differs from its replay twin: %s", when, n.id, diffLines(dn, dt))
			}
		}
		return nil
	}
	if v := checkAll("initially"); v != nil {
		return v
	}
	for oi := range c.Ops {
		op := &c.Ops[oi]
		when := fmt.Sprintf("after op %d (%s on node %d)", oi, op.Kind, op.Node)
		if op.Kind != "interleave" && (op.Node < 0 || op.Node >= len(nodes)) {
			continue
		}
		switch op.Kind {
		case "copy":
			src := nodes[op.Node]
			var cp *otto.Otto
			var perr interface{}
			func() {
				defer func() { perr = recover() }()
				cp = src.vm.Copy()
			}()
			if perr != nil {
				v := viol("C17", "copy_panicked", "%s: Copy() panicked with %T: %v", when, perr, perr)
				return v
			}
			st.Fault("copy")
			n := &cnode{id: len(nodes), vm: cp, lineage: append([]COp(nil), src.lineage...)}
			n.twin = twinOf(c.Limit, n.lineage)
			nodes = append(nodes, n)
			if len(src.lineage) > 0 && src.lineage[len(src.lineage)-1].Kind == "abort" {
				st.Probe("copy_after_abnormal_exit")
			}
			if src.id != 0 {
				st.Probe("copy_of_copy")
			}
		case "midcopy":
			// Copy() taken from inside an interrupt function while op.Src is
			// running on the node; the copy must equal a runtime that replayed the
			// node's history and was stopped at that very poll
			n := nodes[op.Node]
			var cp *otto.Otto
			var perr interface{}
			before := append([]COp(nil), n.lineage...)
			tn, tt := len(crtOf(n.vm).trace), len(crtOf(n.twin).trace)
			r1 := runOnSending(n.vm, op.Src, op.Step, func() {
				defer func() { perr = recover() }()
				cp = n.vm.Copy()
			})
			r2 := applyOp(n.twin, op)
			n.lineage = append(n.lineage, *op)
			delete(twinDump, n.id)
			st.Fault("midcopy")
			if perr != nil {
				return viol("C17", "copy_panicked", "%s: Copy() from inside an interrupt function panicked with %T: %v", when, perr, perr)
			}
			if r1 != r2 {
				return viol("C17", "result_diverged", "%s: node (copied mid-run) gives %q, its replay twin %q", when, clip(r1), clip(r2))
			}
			a, b := crtOf(n.vm).trace[tn:], crtOf(n.twin).trace[tt:]
			if len(a) != len(b) {
				return viol("C17", "trace_diverged", "%s: %d host calls on the node (copied mid-run), %d on the twin; %s", when, len(a), len(b), firstDiff(a, b))
			}
			if cp != nil {
				cp.Interrupt = nil
				st.Probe("copy_taken_mid_run")
				halt := *op
				halt.Kind = "halt"
				m := &cnode{id: len(nodes), vm: cp, lineage: append(before, halt)}
				m.twin = twinOf(c.Limit, m.lineage)
				nodes = append(nodes, m)
			}
		case "run", "abort", "mut", "halt":
			n := nodes[op.Node]
			tn, tt := len(crtOf(n.vm).trace), len(crtOf(n.twin).trace)
			r1 := applyOp(n.vm, op)
			r2 := applyOp(n.twin, op)
			ev("op", oi, r1, r2)
			n.lineage = append(n.lineage, *op)
			delete(twinDump, n.id)
			st.Fault(op.Kind)
			if strings.HasPrefix(r1, "ABORTED") {
				st.Probe("program_aborted_midway")
			}
			if r1 != r2 {
				return viol("C17", "result_diverged", "%s: node gives %q, its replay twin %q", when, clip(r1), clip(r2))
			}
			a, b := crtOf(n.vm).trace[tn:], crtOf(n.twin).trace[tt:]
			if len(a) != len(b) {
				return viol("C17", "trace_diverged", "%s: %d host calls on the node, %d on the twin; %s", when, len(a), len(b), firstDiff(a, b))
			}
			for i := range a {
				if a[i] != b[i] {
					return viol("C17", "trace_diverged", "%s: host call %d: node %q twin %q", when, i, clip(a[i]), clip(b[i]))
				}
			}
		case "interleave":
			if v := interleaveOp(c, op, nodes, twinDump, st, when); v != nil {
				return v
			}
		}
		// After each operation the nodes it touched (and, for Copy, source and
		// copy) are compared with their twins; every node is compared again at
		// the end of the history - a leaked mutation stays visible - and every
		// third operation.
		only = map[int]bool{}
		switch op.Kind {
		case "copy", "midcopy":
			only[op.Node], only[len(nodes)-1] = true, true
		case "interleave":
			for _, ni := range op.Nodes {
				only[ni] = true
			}
		default:
			// results and host-call traces were compared above; the heap dump of
			// the touched node is taken for mutations only
			if op.Kind == "mut" {
				only[op.Node] = true
			}
		}
		if (oi%3 == 2 && !c.Sparse) || oi == len(c.Ops)-1 {
			only = nil
		}
		if only != nil && len(only) == 0 {
			continue
		}
		if v := checkAll(when); v != nil {
			return v
		}
	}
	// final observation: every observer on every node and its twin
	allObs := strings.Join(observeFragments, "\n")
	for _, n := range nodes {
		tn, tt := len(crtOf(n.vm).trace), len(crtOf(n.twin).trace)
		r1 := runOn(n.vm, allObs, -1)
		r2 := runOn(n.twin, allObs, -1)
		if r1 != r2 {
			return viol("C17", "result_diverged", "final observation on node %d: node gives %q, its replay twin %q", n.id, clip(r1), clip(r2))
		}
		a, b := crtOf(n.vm).trace[tn:], crtOf(n.twin).trace[tt:]
		if len(a) != len(b) {
			return viol("C17", "trace_diverged", "final observation on node %d: %d host calls on the node, %d on the twin; %s", n.id, len(a), len(b), firstDiff(a, b))
		}
		for i := range a {
			if a[i] != b[i] {
				return viol("C17", "trace_diverged", "final observation on node %d, host call %d: node %q twin %q", n.id, i, clip(a[i]), clip(b[i]))
			}
		}
	}
	sig, copied, after := "", false, false
	for _, op := range c.Ops {
		sig += op.Kind[:1] + strconv.Itoa(op.Node) + strconv.Itoa(op.MKind)
		if op.Kind == "copy" {
			copied = true
		} else if copied {
			after = true
		}
	}
	if after {
		st.NonTrivial++
		st.Sig(hashStr("copysim", sig))
	}
	return nil
}

// interleaveOp runs different programs on several nodes simultaneously under
// the step scheduler; each twin runs the same program alone.
func interleaveOp(c *CopyCase, op *COp, nodes []*cnode, twinDump map[int]string, st *Stats, when string) *Violation {
	var ns []*cnode
	var srcs []string
	seen := map[int]bool{}
	for i, ni := range op.Nodes {
		if ni >= 0 && ni < len(nodes) && !seen[ni] && i < len(op.Srcs) && len(ns) < maxTasks {
			seen[ni] = true
			ns = append(ns, nodes[ni])
			srcs = append(srcs, op.Srcs[i])
		}
	}
	if len(ns) < 2 {
		return nil
	}
	n := len(ns)
	res := make([]string, n)
	tlen := make([]int, n)
	for i, nd := range ns {
		tlen[i] = len(crtOf(nd.vm).trace)
		crtOf(nd.vm).abort = -1
	}
	ms = msched{n: n, cur: -2, strategy: int(op.Seed % 3), pNum: 1, pDen: []uint64{1, 3, 16, 64}[(op.Seed>>8)%4], stepCap: 200000}
	ms.rng.s = op.Seed
	ms.hash = 1469598103934665603
	ms.burst = 1
	for i := 0; i < n; i++ {
		ms.alive[i] = true
		ms.prio[i] = int(mix(op.Seed, uint64(i)) % 1000)
	}
	for i := range ms.change {
		ms.change[i] = int64(mix(op.Seed, uint64(100+i)) % 5000)
	}
	ms.active = true
	done := make(chan struct{})
	for i := 0; i < n; i++ {
		go func(i int) {
			msWaitTurn(i)
			msSetRunning(i, true)
			res[i] = runOn(ns[i].vm, srcs[i], -1)
			msSetRunning(i, false)
			msDone(i)
			done <- struct{}{}
		}(i)
	}
	msStart(int(mix(op.Seed, 7) % uint64(n)))
	for i := 0; i < n; i++ {
		<-done
	}
	ms.active = false
	ev("interleave", ms.hash, ms.steps, ms.switches, strings.Join(res, "|"))
	st.Fault("interleave")
	st.ProbeN("context_switches", ms.switches)
	if ms.midSw >= 2 {
		st.Probe("interleave_with_switches")
	}
	for i, nd := range ns {
		runOp := COp{Kind: "run", Node: nd.id, Src: srcs[i]}
		tt := len(crtOf(nd.twin).trace)
		r2 := applyOp(nd.twin, &runOp)
		nd.lineage = append(nd.lineage, runOp)
		delete(twinDump, nd.id)
		if res[i] != r2 {
			return viol("C17", "result_diverged", "%s: node %d interleaved gives %q, its twin alone %q", when, nd.id, clip(res[i]), clip(r2))
		}
		a, b := crtOf(nd.vm).trace[tlen[i]:], crtOf(nd.twin).trace[tt:]
		if len(a) != len(b) {
			return viol("C17", "trace_diverged", "%s: node %d: %d host calls interleaved, %d on the twin; %s", when, nd.id, len(a), len(b), firstDiff(a, b))
		}
		for k := range a {
			if a[k] != b[k] {
				return viol("C17", "trace_diverged", "%s: node %d host call %d: %q vs %q", when, nd.id, k, clip(a[k]), clip(b[k]))
			}
		}
	}
	return nil
}

// ---------------------------------------------------------------------------
// generation: heap builders, mutations, observations

func heapFragments(i int) []string {
	n := strconv.Itoa(i)
	return []string{
		"H.o" + n + "={a:1,b:'x',c:{d:[1,2,{e:3}]},'k y':null,u:undefined};",
		"H.c" + n + "={};H.c" + n + ".self=H.c" + n + ";H.c" + n + ".arr=[H.c" + n + ",H];",
		"H.g" + n + "={_v:1,get v(){return this._v},set v(x){this._v=x}};",
		"H.so" + n + "={set s(x){this._s=x}};H.go" + n + "={get g(){return " + n + "}};",
		"Object.defineProperty(H,'d" + n + "',{value:7,writable:false,enumerable:false,configurable:false});",
		"H.fz" + n + "=Object.freeze({a:[1]});H.se" + n + "=Object.seal({b:2});H.ne" + n + "=Object.preventExtensions({c:3});",
		"function P" + n + "(){this.x=" + n + "}P" + n + ".prototype.m=function(){return this.x};H.p" + n + "=new P" + n + "();H.q" + n + "=Object.create(H.p" + n + ",{z:{value:2,enumerable:true}});",
		"H.b" + n + "=function(a,b){return [this.k,a&&a.obj,b]}.bind({k:" + n + "},{obj:1},2);",
		"H.bb" + n + "=function(a){return a}.bind(null).bind({z:1},{deep:[H]});",
		"var gcount" + n + "=0;H.bg" + n + "=function(x){gcount" + n + "+=(x|0);return gcount" + n + "+':'+(typeof H)}.bind(null);",
		"H.bc" + n + "=(function(){var cnt=0;return function(x){cnt+=(x|0);return cnt}.bind({})})();",
		"H.bm" + n + "=function(cfg,x){cfg.n+=(x|0);return cfg.n+':'+this.t}.bind({t:" + n + "},{n:1});",
		"H.bt" + n + "=function(x){this.acc=(this.acc|0)+(x|0);return this.acc}.bind({acc:0});",
		"H.args" + n + "=(function(a,b){return arguments})(1,{x:2},3);",
		"(function(a,b){var A=arguments;R.push({inc:function(x){a++;A[1]='z'+x;return a},peek:function(){return a+','+b+','+A.length+','+A[0]}})})(1,2);",
		"H.nf" + n + "=function fact(k){return k<=1?1:k*fact(k-1)};",
		"H.re" + n + "=/a/g;H.re" + n + ".exec('aaa');",
		"H.dt" + n + "=new Date(86400000*" + n + ");",
		"H.er" + n + "=new TypeError('m" + n + "');try{null.x}catch(e){H.ie" + n + "=e}",
		"H.w" + n + "=[new String('s'),new Number(1),new Boolean(false),Object(1)];",
		"H.sp" + n + "=[1,,3];H.sp" + n + "[10]=5;H.sp" + n + ".length=20;delete H.sp" + n + "[0];",
		"(function(){var k=" + n + ",log=[];R.push({inc:function(x){k++;log.push(x);return k},peek:function(){return k+':'+log.join()}})})();",
		"(function(){var sh=0;R.push({inc:function(x){sh+=x;return sh},peek:function(){return sh}});R.push({inc:function(x){sh*=2;return sh},peek:function(){return 'b'+sh}})})();",
		"try{throw {v:1}}catch(ex){R.push({inc:function(x){ex.v+=x;return ex.v},peek:function(){return ex.v}})}",
		"with({wv:" + n + "}){R.push({inc:function(x){wv+=x;return wv},peek:function(){return wv}})}",
		"Array.prototype.extra" + n + "=function(){return " + n + "};",
		"delete String.prototype.big;Math.PI" + n + "=6.28;",
		"Object.prototype.op" + n + "=" + n + ";",
		"Function.prototype.fp" + n + "=function(){return this.length};",
		"parseInt=function(){return 42};",
		"Object.defineProperty(this,'gg" + n + "',{get:function(){return " + n + "},configurable:true});",
		"var gv" + n + "={n:" + n + "};function gf" + n + "(){return gv" + n + ".n}",
		"H.cal" + n + "=function g(){return g.caller};H.calh" + n + "=function h(){return H.cal" + n + "()};",
		"Error.prototype.tag" + n + "='t';RangeError.prototype.name='RE" + n + "';",
		"H.fa" + n + "=function(){};H.fa" + n + ".prototype={constructor:H.fa" + n + ",pm:1};H.fa" + n + ".own=[H.fa" + n + "];",
		"Number.prototype.toFixed=function(){return 'nf'};",
		"H.json" + n + "=JSON.parse('{\"a\":[1,{\"b\":null}]}');",
		"H.ev" + n + "=eval('(function(){var q=" + n + ";return function(){return q++}})()');R.push({inc:H.ev" + n + ",peek:H.ev" + n + "});",
		"H.nw" + n + "=new Function('a','return a+" + n + "');",
		"var SH" + n + "={wv:'w" + n + "'};function mkw" + n + "(tag){with(SH" + n + "){return function(){return tag+wv}}}H.wa" + n + "=mkw" + n + "('a');H.wb" + n + "=mkw" + n + "('b');",
		"H.mx" + n + "=(function(){var c=0,f;f=Math.max.bind(null,{valueOf:function(){if(c++%2===0)f(1000);return 1}},2);return f})();",
		"H.jp" + n + "=JSON.parse('{\"b\":1,\"a\":{\"z\":1,\"y\":2,\"x\":3,\"w\":4},\"c\":[{\"q\":1,\"p\":2,\"o\":3}],\"d\":4,\"e\":5}');",
		"eval('var ev" + n + "=0;for(var ei" + n + "=0;ei" + n + "<6;ei" + n + "++){ev" + n + "+=ei" + n + ";H.ev" + n + "=eval(\\'ev" + n + "*2\\')}');",
		"H.og" + n + "={};H.og" + n + ".a=1;H.og" + n + ".b=2;H.og" + n + ".c=3;H.og" + n + ".d=4;H.og" + n + ".e=5;",
		"H.pa" + n + "=(function(arguments){return function(){return String(arguments)}})(" + n + ");",
		"H.em" + n + "={};H.ea" + n + "=[];H.ef" + n + "=function(){};",
		"var loc='global';H.realEval=H.realEval||eval;eval=function(src){return 'wrapped'};",
		"function dive" + n + "(k){if(k<=0){try{null.x}catch(e){return String(e.stack).split('\\n').length}}return dive" + n + "(k-1)}H.dive=dive" + n + ";",
		"H.nfe" + n + "=(function(){var f=function me(k){return k<=0?[]:[function(){return me}].concat(me(k-1))};return f(2)})();",
		"try{throw 1}catch(cx){H.cx1_" + n + "=function(){return cx++};H.cx2_" + n + "=function(){return cx}}",
	}
}

var observeFragments = []string{
	"for(var i=0;i<R.length;i++){try{rec(R[i].peek())}catch(e){rec('E'+e)}}",
	"for(var k in H){try{var bf=H[k];if(typeof bf==='function'&&(k.slice(0,2)==='bm'||k.slice(0,2)==='bt'))rec(k+'='+String(bf(0)))}catch(e){rec('E'+e)}}",
	"for(var k in H){try{var ag=H[k];if(k.slice(0,4)==='args'){rec(k+':'+ag.length+':'+String(ag[0])+':'+String(ag[1]&&ag[1].x)+':'+JSON.stringify(Object.getOwnPropertyDescriptor(ag,'0')))}}catch(e){rec('E'+e)}}",
	"var ks=[];for(var k in H){ks.push(k)};rec(ks.join());",
	"for(var k in H){try{var b=H[k];if(typeof b==='function'&&k.charAt(0)==='b')rec(k+'='+String(b(5)))}catch(e){rec('E'+e)}}",
	"for(var k in H){try{if(k.slice(0,4)==='calh')rec(k+':'+(H[k]()===H[k])+':'+typeof H[k]())}catch(e){rec('E'+e)}}",
	"for(var k in H){try{var o=H[k];if(o&&k.charAt(0)==='g'){rec(k+':'+o.v);o.v=(o.v|0)+1;rec(k+':'+o.v)}}catch(e){rec('E'+e)}}",
	"try{rec(JSON.stringify(H,function(k,v){return typeof v==='function'?'fn':(k==='self'||k==='arr'||k==='deep'||k==='own'?undefined:v)}).length)}catch(e){rec('E'+e)}",
	"for(var k in H){try{var a=H[k];if(k.slice(0,4)==='args'){rec(k+':'+a.length+':'+a[0]+':'+Array.prototype.slice.call(a).length);a[0]='w';rec(String(a[0]))}}catch(e){rec('E'+e)}}",
	"try{rec([].extra1?[].extra1():'none')}catch(e){rec('E'+e)};rec(typeof ''.big);rec(String(parseInt('7')));rec((1.5).toFixed(1));",
	"for(var k in H){try{var r=H[k];if(k.slice(0,2)==='re'){rec(k+':'+r.lastIndex+':'+r.test('aa')+':'+r.lastIndex)}}catch(e){rec('E'+e)}}",
	"for(var k in H){try{if(k.slice(0,2)==='er'||k.slice(0,2)==='ie'){var e0=H[k];rec(k+':'+e0.name+':'+e0.message+':'+(e0 instanceof Error)+':'+String(e0.stack).slice(0,60))}}catch(e){rec('E'+e)}}",
	"try{rec(new EvalError('q').name+(new EvalError('q') instanceof EvalError)+(new RangeError('r') instanceof RangeError)+Object.prototype.toString.call(new URIError('u')))}catch(e){rec('E'+e)}",
	"try{rec(eval('1+1')+':'+(function(){var loc=5;return eval('loc')})()+':'+(0,eval)('typeof H'))}catch(e){rec('E'+e)}",
	"for(var k in H){try{if(k.charAt(0)==='p'||k.charAt(0)==='q'){rec(k+':'+H[k].m()+':'+H[k].x+':'+H[k].z)}}catch(e){rec('E'+e)}}",
	"try{rec(Object.keys(H).length+':'+Object.isFrozen(H)+':'+Object.isExtensible(H))}catch(e){rec('E'+e)}",
	"for(var k in H){try{if(k.slice(0,2)==='dt'){rec(k+':'+H[k].getTime());H[k].setTime(H[k].getTime()+1)}}catch(e){rec('E'+e)}}",
	"for(var k in H){try{if(k.slice(0,2)==='nf')rec(k+':'+H[k](4)+':'+H[k].name)}catch(e){rec('E'+e)}}",
	"try{rec(typeof gg1+':'+(typeof gf1==='function'?gf1():'-'))}catch(e){rec('E'+e)}",
	"try{var gs=[];for(var gi=0;gi<12;gi++){if(typeof this['gcount'+gi]==='number')gs.push(gi+'='+this['gcount'+gi])}rec(gs.join())}catch(e){rec('E'+e)}",
	"for(var k in H){try{var go=H[k];if(go&&typeof go==='object'&&k.slice(0,2)==='og'&&!Object.isFrozen(go)){var gn=0;Object.defineProperty(go,'c',{get:function(){gn++;go['zy'+gn]=gn;delete go.a;delete go.d;return 3},enumerable:true,configurable:true});rec(k+':'+(Object.values?String(Object.values(go)):'nv')+'|'+(Object.entries?String(Object.entries(go)):'ne')+'|'+JSON.stringify(go)+'|'+Object.keys(Object.assign?Object.assign({},go):{})+'|'+Object.keys(go)+'|'+Object.getOwnPropertyNames(go))}}catch(e){rec('E'+e)}}",
	"for(var k in H){try{var fo=H[k];if(fo&&typeof fo==='object'&&k.slice(0,2)==='og'){var fl=[];for(var fk in fo){fl.push(fk);if(fl.length===1){fo.zz=1;delete fo.b}}rec(k+':'+fl.join()+':'+Object.keys(fo).join())}}catch(e){rec('E'+e)}}",
	"for(var k in H){try{if(k.slice(0,2)==='mx')rec(k+':'+H[k](50)+':'+H[k](7))}catch(e){rec('E'+e)}}",
	"for(var k in H){try{if(k.slice(0,2)==='wa')rec(k+':'+H[k]()+','+H['wb'+k.slice(2)]())}catch(e){rec('E'+e)}}",
	"try{var hs=hslice(3);rec(hs.length+':'+hs.join()+':'+(Object.getPrototypeOf(hs)===Array.prototype)+':'+Array.prototype.isPrototypeOf(hs)+':'+(hs instanceof Array))}catch(e){rec('E'+e)}",
	"try{var hp=hpair(2,3);rec(String(hp)+':'+(hp instanceof Array)+':'+(Object.getPrototypeOf(hp)===Array.prototype))}catch(e){rec('E'+e)}",
	"try{hpair(1)}catch(e){rec(e.name+':'+(e instanceof RangeError)+':'+(Object.getPrototypeOf(e)===RangeError.prototype))}",
	"try{rec(typeof H.dive==='function'?H.dive(25)+':'+H.dive(3):'nodive')}catch(e){rec('E'+e)}",
	"try{rec('evd'+(function dv(n){try{return eval('dv(n+1)')}catch(e){return n}})(0)+':'+(function dw(n){try{return n>400?n:dw(n+1)}catch(e){return n}})(0))}catch(e){rec('E'+e)}",
	"try{rec('tl'+(function d(k){if(k<=0){try{null.x}catch(e){return String(e.stack).split('\\n').length}}return d(k-1)})(17))}catch(e){rec('E'+e)}",
	"try{rec(H.realEval?(function(eval){var loc='local';return eval('loc')})(H.realEval)+':'+eval('loc'):'noeval')}catch(e){rec('E'+e)}",
	"for(var k in H){try{if(k.slice(0,2)==='pa')rec(k+':'+H[k]())}catch(e){rec('E'+e)}}",
	"for(var k in H){try{if(k.slice(0,2)==='em'||k.slice(0,2)==='ea'||k.slice(0,2)==='ef'){var eo=H[k];rec(k+':'+eo.m0+':'+eo.pk5+':'+eo.touched+':'+Object.keys(eo).join())}}catch(e){rec('E'+e)}}",
	"for(var k in H){try{if(k.slice(0,3)==='cx1')rec(k+':'+H[k]()+':'+H['cx2'+k.slice(3)]())}catch(e){rec('E'+e)}}",
	"for(var k in H){try{if(k.slice(0,3)==='nfe'){var l=H[k];rec(k+':'+l.length+':'+(l[0]()===l[1]())+':'+typeof l[0]())}}catch(e){rec('E'+e)}}",
}

var mutateFragments = []string{
	"for(var i=0;i<R.length;i++){try{rec(String(R[i].inc(i+1)))}catch(e){rec('E'+e)}}",
	"try{R[0].inc(7)}catch(e){}",
	"try{R[R.length-1].inc(3)}catch(e){}",
	"H.added=(H.added|0)+1;",
	"for(var k in H){delete H[k];break}",
	"for(var k in H){try{if(typeof H[k]==='object'&&H[k]){H[k].touched=1;break}}catch(e){}}",
	"try{Object.freeze(H)}catch(e){}",
	"try{Object.defineProperty(H,'hid',{value:1,enumerable:false,configurable:true})}catch(e){}",
	"Array.prototype.extra1=function(){return 'changed'};",
	"delete Array.prototype.extra1;",
	"Object.prototype.inj=function(){return 1};",
	"for(var k in H){try{if(k.slice(0,4)==='args'){delete H[k][0];H[k][1]='q'}}catch(e){}}",
	"for(var k in H){try{if(k.charAt(0)==='p'){Object.getPrototypeOf(H[k]).m=function(){return 'edited'}}}catch(e){}}",
	"for(var k in H){try{if(k.slice(0,2)==='sp'){H[k].length=2;H[k].push(9)}}catch(e){}}",
	"try{Error.prototype.name='Err2'}catch(e){}",
	"for(var k in H){try{if(k.slice(0,2)==='er'||k.slice(0,2)==='ie'){H[k].stack='ST'+k;H[k].message='M'+k}}catch(e){}}",
	"try{R.push({inc:function(){return 0},peek:function(){return 'new'}})}catch(e){}",
	"try{eval=function(x){return 'shadowed'}}catch(e){}",
	"try{delete this.parseFloat}catch(e){}",
	"delete this.eval;",
	"eval=5;",
	"var savedEval=eval;eval=undefined;this.ev2=savedEval;",
	"delete this.Object;delete this.Array;JSON=null;",
	"Object.getOwnPropertyNames=null;Function.prototype.call=null;Function.prototype.bind=undefined;",
	"undefinedFunctionCall__();",
	"throw new Error('uncaught');",
}

func genCopyProg(t *rapid.T, uid *int) string {
	var b strings.Builder
	n := rapid.IntRange(1, 5).Draw(t, "nfrag")
	for i := 0; i < n; i++ {
		switch rapid.IntRange(0, 3).Draw(t, "fkind") {
		case 0:
			*uid++
			fr := heapFragments(*uid)
			b.WriteString(fr[rapid.IntRange(0, len(fr)-1).Draw(t, "heap")])
		case 1:
			b.WriteString(observeFragments[rapid.IntRange(0, len(observeFragments)-1).Draw(t, "obs")])
		case 2:
			if rapid.IntRange(0, 2).Draw(t, "poke?") > 0 {
				b.WriteString("__poke(" + strconv.Itoa(rapid.IntRange(0, 40).Draw(t, "pokev")) + ");")
			} else {
				b.WriteString(mutateFragments[rapid.IntRange(0, len(mutateFragments)-1).Draw(t, "mut")])
			}
		default:
			*uid++
			fr := heapFragments(*uid)
			b.WriteString(fr[rapid.IntRange(0, len(fr)-1).Draw(t, "heap")])
			b.WriteString("\n")
			b.WriteString(observeFragments[rapid.IntRange(0, len(observeFragments)-1).Draw(t, "obs")])
		}
		b.WriteString("\n")
	}
	return b.String()
}

func (copyEngine) Gen(t *rapid.T, tier string) interface{} {
	c := &CopyCase{Engine: "copysim"}
	if rapid.Bool().Draw(t, "limit?") {
		c.Limit = rapid.IntRange(20, 60).Draw(t, "limit")
	}
	switch rapid.IntRange(0, 3).Draw(t, "trace?") {
	case 2:
		c.Trace = rapid.IntRange(1, 30).Draw(t, "trace")
	case 3:
		c.Trace = -1 // SetStackTraceLimit(0): unlimited
	}
	uid := 0
	maxOps, maxNodes := 10, 6
	if tier == "thorough" {
		maxOps, maxNodes = 24, 8
	}
	nops := rapid.IntRange(1, maxOps).Draw(t, "nops")
	nnodes := 1
	for i := 0; i < nops; i++ {
		k := rapid.IntRange(0, 9).Draw(t, "opkind")
		if i == 1 && nnodes == 1 {
			k = 4 // histories without a Copy are not about this property: copy early
		}
		node := rapid.IntRange(0, nnodes-1).Draw(t, "node")
		switch {
		case k <= 3:
			c.Ops = append(c.Ops, COp{Kind: "run", Node: node, Src: genCopyProg(t, &uid)})
		case k <= 5 && nnodes < maxNodes && i > 0:
			c.Ops = append(c.Ops, COp{Kind: "copy", Node: node})
			nnodes++
		case k == 6:
			n := rapid.IntRange(0, 80).Draw(t, "objidx")
			if rapid.IntRange(0, 4).Draw(t, "far") == 4 {
				n = rapid.IntRange(0, 3000).Draw(t, "objidx_far")
			}
			c.Ops = append(c.Ops, COp{Kind: "mut", Node: node, N: n, MKind: rapid.IntRange(0, 10).Draw(t, "mkind"), Arg: rapid.IntRange(0, 30).Draw(t, "marg")})
		case k == 7 && rapid.Bool().Draw(t, "midcopy?") && nnodes < maxNodes:
			c.Ops = append(c.Ops, COp{Kind: "midcopy", Node: node, Src: genCopyProg(t, &uid), Step: rapid.IntRange(0, 150).Draw(t, "copystep")})
			nnodes++
		case k == 7:
			c.Ops = append(c.Ops, COp{Kind: "abort", Node: node, Src: genCopyProg(t, &uid), Step: rapid.IntRange(0, 120).Draw(t, "abortstep")})
		case k == 8 && nnodes >= 2:
			op := COp{Kind: "interleave", Seed: rapid.Uint64().Draw(t, "iseed")}
			m := rapid.IntRange(2, nnodes).Draw(t, "inodes")
			for j := 0; j < m; j++ {
				op.Nodes = append(op.Nodes, (node+j)%nnodes)
				op.Srcs = append(op.Srcs, genCopyProg(t, &uid))
			}
			c.Ops = append(c.Ops, op)
		default:
			c.Ops = append(c.Ops, COp{Kind: "run", Node: node, Src: genCopyProg(t, &uid)})
		}
	}
	return c
}
