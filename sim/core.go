package main

import (
	"encoding/json"
	"fmt"
	"hash/fnv"
	"os"
	"runtime"
	"sort"
	"strings"
)

// ---------------------------------------------------------------------------
// PRNG: splitmix64. Every simulator choice that is not drawn through rapid
// (per-step scheduling, simulated clock increments) comes from one of these,
// seeded from the case, so a case file alone determines the execution.

type Rng struct{ s uint64 }

func NewRng(seed uint64) *Rng { return &Rng{s: seed} }

func (r *Rng) Next() uint64 {
	r.s += 0x9e3779b97f4a7c15
	z := r.s
	z = (z ^ (z >> 30)) * 0xbf58476d1ce4e5b9
	z = (z ^ (z >> 27)) * 0x94d049bb133111eb
	return z ^ (z >> 31)
}

func (r *Rng) Intn(n int) int {
	if n <= 0 {
		return 0
	}
	return int(r.Next() % uint64(n))
}

func mix(a, b uint64) uint64 {
	r := Rng{s: a ^ (b * 0x9e3779b97f4a7c15)}
	r.Next()
	return r.Next()
}

// ---------------------------------------------------------------------------
// Violations

type Violation struct {
	Property string `json:"property"`
	Class    string `json:"class"`            // stable name of the violated oracle; shrinking keeps this fixed
	Detail   string `json:"detail,omitempty"` // human-readable specifics
	Key      string `json:"key,omitempty"`    // known-finding key, when the oracle can compute one
}

func (v *Violation) String() string {
	if v == nil {
		return "<none>"
	}
	return fmt.Sprintf("%s/%s: %s", v.Property, v.Class, v.Detail)
}

func viol(prop, class, format string, a ...interface{}) *Violation {
	return &Violation{Property: prop, Class: class, Detail: fmt.Sprintf(format, a...)}
}

// ---------------------------------------------------------------------------
// Stats (reach measurement); mergeable across batches/processes.

type Stats struct {
	Cases      int64            `json:"cases"`
	Runs       int64            `json:"runs"`
	Steps      int64            `json:"steps"`
	SimTimeNs  int64            `json:"sim_time_ns"`
	NonTrivial int64            `json:"nontrivial_runs"`
	Invalid    int64            `json:"invalid_cases"`
	Faults     map[string]int64 `json:"faults_fired"`
	Probes     map[string]int64 `json:"probes"`
	Known      map[string]int64 `json:"known_findings_seen"`
	Sigs       map[uint64]bool  `json:"-"`
	SigList    []uint64         `json:"sigs,omitempty"`
	Samples    []interface{}    `json:"samples,omitempty"`
	Exhaustive int64            `json:"exhaustive_programs"`
}

func NewStats() *Stats {
	return &Stats{Faults: map[string]int64{}, Probes: map[string]int64{}, Known: map[string]int64{}, Sigs: map[uint64]bool{}}
}

func (s *Stats) Fault(kind string)  { s.Faults[kind]++ }
func (s *Stats) Probe(name string)  { s.Probes[name]++ }
func (s *Stats) Sig(h uint64)       { s.Sigs[h] = true }
func (s *Stats) ProbeN(name string, n int64) { s.Probes[name] += n }

func (s *Stats) AddSample(x interface{}) {
	if len(s.Samples) < 3 {
		s.Samples = append(s.Samples, x)
	}
}

func (s *Stats) Merge(o *Stats) {
	s.Cases += o.Cases
	s.Runs += o.Runs
	s.Steps += o.Steps
	s.SimTimeNs += o.SimTimeNs
	s.NonTrivial += o.NonTrivial
	s.Invalid += o.Invalid
	s.Exhaustive += o.Exhaustive
	for k, v := range o.Faults {
		s.Faults[k] += v
	}
	for k, v := range o.Probes {
		s.Probes[k] += v
	}
	for k, v := range o.Known {
		s.Known[k] += v
	}
	for k := range o.Sigs {
		s.Sigs[k] = true
	}
	for _, k := range o.SigList {
		s.Sigs[k] = true
	}
	for _, x := range o.Samples {
		s.AddSample(x)
	}
}

func (s *Stats) Freeze() {
	s.SigList = s.SigList[:0]
	for k := range s.Sigs {
		s.SigList = append(s.SigList, k)
	}
	sort.Slice(s.SigList, func(i, j int) bool { return s.SigList[i] < s.SigList[j] })
}

// ---------------------------------------------------------------------------
// helpers

func hashStr(parts ...string) uint64 {
	h := fnv.New64a()
	for _, p := range parts {
		h.Write([]byte(p))
		h.Write([]byte{0})
	}
	return h.Sum64()
}

// goStackSig returns the collapsed list of otto frames on the current
// goroutine's stack (innermost first), used as "unwinding signature": it is
// exactly the path a panic raised now would unwind through.
func goStackSig(skip int) (sig string, inTry bool) {
	pcs := make([]uintptr, 512)
	n := runtime.Callers(skip+1, pcs)
	frames := runtime.CallersFrames(pcs[:n])
	var names []string
	last := ""
	for {
		f, more := frames.Next()
		fn := f.Function
		if strings.HasPrefix(fn, "github.com/robertkrimen/otto.") {
			fn = strings.TrimPrefix(fn, "github.com/robertkrimen/otto.")
			if strings.Contains(fn, "tryCatchEvaluate") {
				inTry = true
			}
			if fn != last {
				names = append(names, fn)
				last = fn
			}
		}
		if !more {
			break
		}
	}
	// collapse immediate repeats of the generic evaluator pair to keep the
	// signature about structure rather than expression nesting depth
	out := make([]string, 0, len(names))
	for i, nm := range names {
		if i >= 2 && names[i-2] == nm && i >= 3 && names[i-1] == names[i-3] {
			continue
		}
		out = append(out, nm)
	}
	return strings.Join(out, "<"), inTry
}

func goid() string {
	var buf [64]byte
	n := runtime.Stack(buf[:], false)
	f := strings.Fields(string(buf[:n]))
	if len(f) >= 2 {
		return f[1]
	}
	return "?"
}

func writeJSON(path string, v interface{}) error {
	b, err := json.MarshalIndent(v, "", " ")
	if err != nil {
		return err
	}
	tmp := path + ".tmp"
	if err := os.WriteFile(tmp, b, 0o644); err != nil {
		return err
	}
	return os.Rename(tmp, path)
}

func fatalf(format string, a ...interface{}) {
	fmt.Fprintf(os.Stderr, "ottosim: "+format+"\n", a...)
	os.Exit(3)
}
