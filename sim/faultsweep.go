package main

import (
	"encoding/json"
	"errors"
	"fmt"
	"math"
	"os"
	"strconv"
	"strings"
	"syscall"
	"time"
	"unicode/utf16"

	"github.com/robertkrimen/otto"
	"pgregory.net/rapid"
)

// faultsweep (C02, claimed slice): every built-in function discovered on a
// fresh global object is called with every kind of receiver/argument, among
// them a "trap" whose valueOf/toString/getters/callback fault at their k-th
// invocation (throw, host-function panic, interrupt panic) or run into a stack
// depth limit. Oracle: the public API call returns a value or an error; the
// only panics allowed out are the ones the case injected; the runtime is at
// rest and usable afterwards. Nothing is asserted about *which* value or
// error comes back. See DESIGN.md §4 C02.

var fsKinds = []string{"undefined", "null", "boolean", "number", "string", "object", "array", "function", "regexp", "date", "error", "trap", "trapfn", "negative", "big", "nan",
	"regexp_neg", "error_child", "proto_null", "date_invalid", "string_obj", "args", "frozen_array", "sparse", "bound", "empty_string", "infinity", "pos_infinity", "max_int", "min_int", "tiny",
	"hs_group", "hs_class", "hs_backslash", "hs_quant", "hs_percent", "hs_surrogate", "hs_long", "hs_json",
	"nested_arrays", "mixed_array", "array_of_arrays_mixed", "regexp_proto", "bound_bare", "utf16_digits", "utf16_surrogate", "fn_src_break", "dollar_nn", "date_proto", "error_proto", "string_proto", "array_proto", "function_proto", "number_proto", "boolean_proto",
	"nonext_string_fffd", "nonext_array", "nonext_args", "sealed_fn", "frozen_string_wide", "nonext_date", "nonext_regexp",
	"go_slice", "go_map", "go_struct", "go_array", "go_ptr_struct", "go_slice_iface", "go_func", "go_nil_slice", "go_map_int", "go_ptr_array", "go_ptr_array_iface",
	"go_chan", "go_complex", "go_nil_ptr", "go_typed_nil", "go_ptr_ptr", "go_variadic", "go_func_err", "go_func_value", "go_uint8_slice", "go_time", "go_nested", "go_bytes_array", "go_method_ptr",
	"inf_length", "nan_length", "frac_length", "str_length", "regexp_stale", "regexp_stale_sticky",
	"go_map_named_key", "go_map_iface_key", "go_map_struct_key", "go_nil_embedded", "go_func_named_int", "go_func_named_map", "go_named_float32", "go_map_nan_key", "go_named_string", "go_named_slice"}

// kinds used when two positions vary together (the full product of all kinds
// would be 50x50 per function)
var pairKinds = []string{"undefined", "null", "number", "string", "object", "array", "function", "regexp", "date", "trap", "trapfn", "negative", "big", "nan",
	"pos_infinity", "max_int", "empty_string", "utf16_digits", "args", "proto_null", "regexp_proto", "hs_long"}

const fsPreludeJS = `
var __n=0, __k=0, __mode='throw';
function __tick(){ if(++__n===__k){ if(__mode==='throw') throw new Error('trap'); if(__mode==='host') hpanic(); if(__mode==='irq') hirq(); } }
function __mkTrap(callable){
  var t = callable ? function(){ __tick(); return 0; } : {};
  t.valueOf=function(){ __tick(); return 1; };
  t.toString=function(){ __tick(); return 'a'; };
  t.toJSON=function(){ __tick(); return 1; };
  var names=['0','1','2','lastIndex','source','global','x','a','message','name','constructor','get','set','value','writable','enumerable','configurable','index','input'];
  for(var i=0;i<names.length;i++){ (function(nm){ try{ Object.defineProperty(t,nm,{get:function(){ __tick(); return nm==='length'?2:1; },configurable:true,enumerable:true}); }catch(e){} })(names[i]); }
  if(!callable){ try{ Object.defineProperty(t,'length',{get:function(){ __tick(); return 2; },configurable:true}); }catch(e){} }
  return t;
}
function __mk(kind){
  switch(kind){
  case 'undefined': return undefined;
  case 'null': return null;
  case 'boolean': return true;
  case 'number': return 2;
  case 'negative': return -1;
  case 'big': return 4294967296;
  case 'nan': return NaN;
  case 'string': return 'ab,c';
  case 'object': return {a:1,length:2,0:'x',1:'y'};
  case 'array': return [3,1,2];
  case 'function': return function(a,b){ return a<b?-1:a>b?1:0; };
  case 'regexp': return /a/g;
  case 'date': return new Date(86400000);
  case 'error': return new TypeError('e');
  case 'regexp_neg': var rn=/a/g; rn.lastIndex=-1; return rn;
  case 'error_child': return Object.create(new RangeError('c'));
  case 'proto_null': return Object.create(null);
  case 'date_invalid': return new Date(NaN);
  case 'string_obj': return new String('xyz');
  case 'neg_length': return {length:-1,0:'a'};
  case 'inf_length': return {length:Infinity,0:'a',1:'b'};
  case 'nan_length': return {length:NaN,0:'a'};
  case 'frac_length': return {length:2.5,0:'a',1:'b',2:'c'};
  case 'str_length': return {length:'2',0:'a',1:'b'};
  case 'regexp_stale': var rs=/a/g; rs.lastIndex=1000; return rs;
  case 'regexp_stale_sticky': var rt=/(a)|b/gi; rt.test('xxxxxxxxxxxxxxxxxxxxxxxxxxxxxxxxxxxxxxxa'); return rt;
  case 'args': return (function(){return arguments})(1,'b');
  case 'frozen_array': return Object.freeze([1,2]);
  case 'sparse': var sp=[1,,3]; sp[7]=1; return sp;
  case 'bound': return function(a){return a}.bind({q:1},2);
  case 'empty_string': return '';
  case 'infinity': return -Infinity;
  case 'pos_infinity': return Infinity;
  case 'max_int': return 9223372036854775807;
  case 'min_int': return -9223372036854775808;
  case 'tiny': return 5e-324;
  case 'nested_arrays': return [[[1]],[['a']]];
  case 'mixed_array': return [1,'a',{b:2},[3],null,undefined,function(){}];
  case 'array_of_arrays_mixed': return [[1,2],['a'],[{}],[[1.5]]];
  case 'regexp_proto': return RegExp.prototype;
  case 'date_proto': return Date.prototype;
  case 'error_proto': return Error.prototype;
  case 'string_proto': return String.prototype;
  case 'array_proto': return Array.prototype;
  case 'function_proto': return Function.prototype;
  case 'number_proto': return Number.prototype;
  case 'boolean_proto': return Boolean.prototype;
  case 'bound_bare': return Function.prototype.bind();
  case 'utf16_digits': return String.fromCharCode(49,50);
  case 'utf16_surrogate': return String.fromCharCode(97,0xD800);
  case 'fn_src_break': return '}) + (function(){';
  case 'dollar_nn': return 'x$10$25$0$&$\x60$\'$$$';
  case 'hs_group': return 'a(b(?';
  case 'hs_class': return '[z-a';
  case 'hs_backslash': return 'x\\';
  case 'hs_quant': return 'a{2,1}*+?';
  case 'hs_percent': return '%E0%A4%A';
  case 'hs_surrogate': return '\ud800x';
  case 'hs_long': return new Array(300).join('ab');
  case 'hs_json': return '{"a":[1,{"b":';
  case 'nonext_string_fffd': return Object.preventExtensions(new String('a\ufffdb'));
  case 'nonext_array': return Object.preventExtensions([1,,3]);
  case 'nonext_args': return Object.preventExtensions((function(a){return arguments})(1,2));
  case 'sealed_fn': return Object.seal(function(a){return a});
  case 'frozen_string_wide': return Object.freeze(new String('\u4e2d\ud83d\ude00\ud800'));
  case 'nonext_date': return Object.preventExtensions(new Date(0));
  case 'nonext_regexp': return Object.preventExtensions(/a/g);
  case 'go_slice': case 'go_map': case 'go_struct': case 'go_array': case 'go_ptr_struct': case 'go_slice_iface': case 'go_func': case 'go_nil_slice': case 'go_map_int': case 'go_ptr_array': case 'go_ptr_array_iface': case 'go_chan': case 'go_complex': case 'go_nil_ptr': case 'go_typed_nil': case 'go_ptr_ptr': case 'go_variadic': case 'go_func_err': case 'go_func_value': case 'go_uint8_slice': case 'go_time': case 'go_nested': case 'go_bytes_array': case 'go_method_ptr': case 'go_map_named_key': case 'go_map_iface_key': case 'go_map_struct_key': case 'go_nil_embedded': case 'go_func_named_int': case 'go_func_named_map': case 'go_named_float32': case 'go_map_nan_key': case 'go_named_string': case 'go_named_slice': return hgo(kind);
  case 'trap': return __mkTrap(false);
  case 'trapfn': return __mkTrap(true);
  }
}
`

type FSCase struct {
	Engine string   `json:"engine"`
	Path   string   `json:"path"`
	New    bool     `json:"new,omitempty"` // call through 'new'
	Recv   string   `json:"recv"`
	Args   []string `json:"args"`
	Fault  string   `json:"fault"` // none | throw | host | irq | limit
	K      int      `json:"k"`     // fault at the k-th trap invocation / limit value
	// sweep form: when Path is "" the case sweeps paths [From,To)
	From  int  `json:"from,omitempty"`
	To    int  `json:"to,omitempty"`
	Pairs bool `json:"pairs,omitempty"`
	// recursion form: Prog is a self-recursive program run under limit K
	Prog string `json:"prog,omitempty"`
}

type fsEngine struct{}

// goStructT is the Go struct handed to scripts by the go_struct kinds.
type goStructT struct {
	X int
	Y string
	Z []string
	M map[string]interface{}
	f int //nolint:unused
}

func (g goStructT) Get() int       { return g.X }
func (g *goStructT) Set(x int)     { g.X = x }
func (g goStructT) String() string { return "goStructT" }

type (
	goKeyT       string
	goStructKeyT struct{ K int }
	goInnerT     struct{ X int }
	goOuterT     struct{ *goInnerT }
	goIntT       int64
	goF32T       float32
	goSliceT     []int
)

type goErrT struct{}

func (*goErrT) Error() string { return "typed nil error" }

func (fsEngine) Name() string     { return "faultsweep" }
func (fsEngine) Property() string { return "C02" }
func (fsEngine) Init()            { initBuiltinSurface() }
func (fsEngine) Decode(b []byte) (interface{}, error) {
	c := &FSCase{}
	err := json.Unmarshal(b, c)
	return c, err
}

var errIrqSentinel = errors.New("injected interrupt panic")

type hostPanicVal struct{ s string }

type fsRuntime struct {
	vm      *otto.Otto
	hostVal interface{}
}

const defaultLimit = 250

func newFSRuntime() *fsRuntime {
	r := &fsRuntime{vm: otto.New()}
	r.vm.SetStackDepthLimit(defaultLimit)
	r.vm.Interrupt = make(chan func(), 2)
	setRandom(r.vm, 7)
	r.vm.Set("hpanic", func(call otto.FunctionCall) otto.Value {
		r.hostVal = hostPanicVal{"injected host panic"}
		panic(r.hostVal)
	})
	r.vm.Set("hirq", func(call otto.FunctionCall) otto.Value {
		select {
		case call.Otto.Interrupt <- func() { panic(errIrqSentinel) }:
		default:
		}
		return otto.UndefinedValue()
	})
	// Go functions bridged through reflection that drive script callbacks
	r.vm.Set("heach", func(n int, cb func(int) int) int {
		s := 0
		for i := 0; i < n; i++ {
			s += cb(i)
		}
		return s
	})
	r.vm.Set("hmapstr", func(xs []string, cb func(string) string) []string {
		out := make([]string, 0, len(xs))
		for _, x := range xs {
			out = append(out, cb(x))
		}
		return out
	})
	r.vm.Set("hvoid", func(cb func()) { cb() })
	r.vm.Set("hgo", func(call otto.FunctionCall) otto.Value {
		var gv interface{}
		switch call.Argument(0).String() {
		case "go_slice":
			gv = []int{1, 2, 3}
		case "go_map":
			gv = map[string]int{"a": 1, "b": 2}
		case "go_struct":
			gv = goStructT{X: 1, Y: "y", Z: []string{"z"}}
		case "go_array":
			gv = [3]float64{1.5, 2, 3}
		case "go_ptr_struct":
			gv = &goStructT{X: 2, Y: "p", M: map[string]interface{}{"k": 1}}
		case "go_slice_iface":
			gv = []interface{}{1, "a", nil, []int{1}, map[string]int{"q": 1}}
		case "go_func":
			gv = func(a int, b string) (int, error) { return a + len(b), nil }
		case "go_nil_slice":
			gv = []string(nil)
		case "go_map_int":
			gv = map[int]string{1: "one", 2: "two"}
		case "go_ptr_array":
			gv = &[3]int32{1, 2, 3}
		case "go_ptr_array_iface":
			gv = &[2]interface{}{1, "a"}
		case "go_chan":
			gv = make(chan int, 1)
		case "go_complex":
			gv = complex(1, 2)
		case "go_nil_ptr":
			gv = (*goStructT)(nil)
		case "go_typed_nil":
			var e error = (*goErrT)(nil)
			gv = e
		case "go_ptr_ptr":
			p := &goStructT{X: 3}
			gv = &p
		case "go_variadic":
			gv = func(a int, rest ...string) int { return a + len(rest) }
		case "go_func_err":
			gv = func(a int) (int, error) {
				if a > 0 {
					return 0, errors.New("go error result")
				}
				return a, nil
			}
		case "go_func_value":
			gv = func(v otto.Value, o *otto.Object, i interface{}) otto.Value { return v }
		case "go_uint8_slice":
			gv = []uint8{1, 2, 255}
		case "go_time":
			gv = time.Unix(86400, 0).UTC()
		case "go_nested":
			gv = map[string]interface{}{"a": []interface{}{1, map[string]interface{}{"b": []int{1, 2}}}, "s": goStructT{X: 1}, "p": &goStructT{X: 2}, "n": nil}
		case "go_bytes_array":
			gv = [4]byte{1, 2, 3, 4}
		case "go_method_ptr":
			gv = (&goStructT{X: 9}).Set
		case "go_map_named_key":
			gv = map[goKeyT]int{"a": 1, "b": 2}
		case "go_map_iface_key":
			gv = map[interface{}]int{"a": 1, 2: 2}
		case "go_map_struct_key":
			gv = map[goStructKeyT]int{{1}: 1}
		case "go_nil_embedded":
			gv = goOuterT{}
		case "go_func_named_int":
			gv = func(i goIntT) int { return int(i) + 1 }
		case "go_func_named_map":
			gv = func(m map[goKeyT]int) int { return len(m) }
		case "go_named_float32":
			gv = goF32T(1.5)
		case "go_map_nan_key":
			gv = map[float64]int{math.NaN(): 1, 2: 2}
		case "go_named_string":
			gv = goKeyT("named")
		case "go_named_slice":
			gv = goSliceT{1, 2, 3}
		}
		v, err := call.Otto.ToValue(gv)
		if err != nil {
			return otto.UndefinedValue()
		}
		return v
	})
	if _, err := r.vm.Run(fsPreludeJS); err != nil {
		fatalf("harness: faultsweep prelude: %v", err)
	}
	return r
}

func cellSrc(c *FSCase) string {
	var b strings.Builder
	mode := "throw"
	k := c.K
	switch c.Fault {
	case "host":
		mode = "host"
	case "irq":
		mode = "irq"
	case "none", "limit":
		k = 0
	}
	b.WriteString("__n=0;__k=" + strconv.Itoa(k) + ";__mode='" + mode + "';\n(function(){var R=__mk('" + c.Recv + "')")
	for i, a := range c.Args {
		b.WriteString(",A" + strconv.Itoa(i) + "=__mk('" + a + "')")
	}
	if c.Path == "@throw" {
		b.WriteString(";throw R;})()")
		return b.String()
	}
	if c.Path == "@return" {
		b.WriteString(";return R;})()")
		return b.String()
	}
	b.WriteString(";return ")
	if c.New {
		b.WriteString("new " + c.Path + "(")
		for i := range c.Args {
			if i > 0 {
				b.WriteString(",")
			}
			b.WriteString("A" + strconv.Itoa(i))
		}
		b.WriteString(")")
	} else {
		b.WriteString(c.Path + ".call(R")
		for i := range c.Args {
			b.WriteString(",A" + strconv.Itoa(i))
		}
		b.WriteString(")")
	}
	b.WriteString(";})()")
	return b.String()
}

// goAPIWithString hands one string to every public entry point that takes one.
func goAPIWithString(vm *otto.Otto, s string) (bad string) {
	try := func(name string, f func()) {
		if bad != "" {
			return
		}
		defer func() {
			if x := recover(); x != nil {
				bad = fmt.Sprintf("%s panicked with %T: %v", name, x, clip(fmt.Sprint(x)))
			}
		}()
		f()
	}
	try("Otto.Run", func() { vm.Run(s) })
	try("Otto.Eval", func() { vm.Eval(s) })
	try("Otto.Compile", func() {
		if sc, err := vm.Compile("", s); err == nil && sc != nil {
			_ = sc.String()
		}
	})
	try("Otto.Call(src)", func() { vm.Call(s, nil) })
	try("Otto.Call(src,this,args)", func() { vm.Call(s, 1, "a", 2) })
	try("Otto.Call(new src)", func() { vm.Call("new "+s, nil) })
	try("Otto.Object", func() { vm.Object(s) })
	try("Otto.Get", func() { vm.Get(s) })
	try("Otto.Set", func() { vm.Set(s, s) })
	try("Otto.ToValue", func() {
		if v, err := vm.ToValue(s); err == nil {
			v.ToInteger()
			v.ToFloat()
			v.Export()
		}
	})
	try("Object.Get/Set/Call(name)", func() {
		if o, err := vm.Object("({a:1})"); err == nil && o != nil {
			o.Get(s)
			o.Set(s, 1)
			o.Call(s)
		}
	})
	try("Otto.MakeCustomError", func() { vm.MakeCustomError(s, s) })
	return bad
}

// valueAccessors exercises the Value/Object accessors on a returned value; it
// returns a description of the first one that panicked with something that
// was not injected.
func valueAccessors(vm *otto.Otto, v otto.Value) (bad string) {
	try := func(name string, f func()) {
		if bad != "" {
			return
		}
		defer func() {
			if x := recover(); x != nil {
				if x == error(errIrqSentinel) {
					return
				}
				if _, ok := x.(hostPanicVal); ok {
					return
				}
				if _, ok := x.(harnessAbort); ok {
					return // the harness's own step cap
				}
				bad = fmt.Sprintf("Value.%s panicked with %T: %v", name, x, clip(fmt.Sprint(x)))
			}
		}()
		f()
	}
	try("String", func() { _ = v.String() })
	try("ToString", func() { v.ToString() })
	try("ToInteger", func() { v.ToInteger() })
	try("ToFloat", func() { v.ToFloat() })
	try("ToBoolean", func() { v.ToBoolean() })
	try("Export", func() { v.Export() })
	try("Class", func() { _ = v.Class() })
	try("IsNaN/Is*", func() {
		v.IsNaN()
		v.IsString()
		v.IsNumber()
		v.IsObject()
		v.IsFunction()
		v.IsPrimitive()
		v.IsDefined()
		v.IsBoolean()
		v.IsNull()
		v.IsUndefined()
	})
	try("Call", func() { v.Call(otto.NullValue(), 1) })
	if o := v.Object(); o != nil {
		try("Object.Keys", func() { o.Keys() })
		try("Object.KeysByParent", func() { o.KeysByParent() })
		try("Object.Get", func() { o.Get("x"); o.Get("length"); o.Get("0") })
		try("Object.Set", func() { o.Set("x", 1); o.Set("length", 1) })
		try("Object.Call", func() { o.Call("toString"); o.Call("valueOf"); o.Call("nosuch") })
		try("Object.MarshalJSON", func() { o.MarshalJSON() })
		try("Object.Value", func() { _ = o.Value().String() })
	}
	try("Otto.Set/Get", func() { vm.Set("__tmp", v); vm.Get("__tmp") })
	try("Otto.Call", func() { vm.Call("String", nil, v); vm.Call("Number", nil, v) })
	try("Otto.ToValue", func() { vm.ToValue(v) })
	return bad
}

// defaultRecv: the receiver a method is meant for, so that the positions being
// varied are not masked by an early "wrong receiver" exit.
func defaultRecv(path string) string {
	switch {
	case strings.HasPrefix(path, "Number.prototype."):
		return "number"
	case strings.HasPrefix(path, "String.prototype."):
		return "string"
	case strings.HasPrefix(path, "Array.prototype."):
		return "array"
	case strings.HasPrefix(path, "Date.prototype."):
		return "date"
	case strings.HasPrefix(path, "RegExp.prototype."):
		return "regexp"
	case strings.HasPrefix(path, "Function.prototype."):
		return "function"
	case strings.HasPrefix(path, "Boolean.prototype."):
		return "boolean"
	case strings.Contains(path, "Error.prototype."):
		return "error"
	}
	return "object"
}

func cellKey(c *FSCase) string {
	n := ""
	if c.New {
		n = "new "
	}
	return fmt.Sprintf("%s%s recv=%s args=%s", n, c.Path, c.Recv, strings.Join(c.Args, ","))
}

// runCell executes one cell on r; ok=false means the runtime must be discarded.
func runCell(r *fsRuntime, c *FSCase, st *Stats) (v *Violation, reuse bool) {
	st.Runs++
	st.Fault("cell_" + c.Fault)
	src := cellSrc(c)
	vm := r.vm
	r.hostVal = nil
	for len(vm.Interrupt) > 0 {
		<-vm.Interrupt
	}
	// unbounded recursion without a limit legitimately exhausts the Go stack (that
	// is what the limit is for), so every cell runs under one
	if c.Fault == "limit" {
		vm.SetStackDepthLimit(c.K)
	} else {
		vm.SetStackDepthLimit(defaultLimit)
	}
	val, err, panicked, pv := protectedRun(vm, src)
	if !panicked && err == nil && c.Path == "@return" {
		// the Value / Object accessors of the public API call back into the script
		// (valueOf, toString, getters): they must return too
		if av := valueAccessors(vm, val); av != "" {
			vm.SetStackDepthLimit(defaultLimit)
			x := viol("C02", "go_panic_escaped", "%s fault=%s@%d: %s", cellKey(c), c.Fault, c.K, av)
			x.Key = cellKey(c) + " accessor"
			return x, false
		}
	}
	if !panicked && err != nil {
		// rendering the error is part of the API as well
		func() {
			defer func() {
				if x := recover(); x != nil {
					panicked, pv = true, fmt.Sprintf("err.Error() panicked: %v", x)
				}
			}()
			_ = err.Error()
			if oe, ok := err.(*otto.Error); ok {
				_ = oe.String()
			}
		}()
	}
	vm.SetStackDepthLimit(defaultLimit)
	if eventLogOn {
		ev("cell", cellKey(c), c.Fault, c.K, panicked, fmt.Sprint(err), valStr(val))
	}
	fail := func(class, f string, a ...interface{}) *Violation {
		x := viol("C02", class, "%s fault=%s@%d: "+f, append([]interface{}{cellKey(c), c.Fault, c.K}, a...)...)
		x.Key = cellKey(c)
		return x
	}
	if panicked {
		switch {
		case c.Fault == "irq" && pv == error(errIrqSentinel):
			st.Probe("irq_panic_propagated")
		case c.Fault == "host" && r.hostVal != nil && pv == r.hostVal:
			st.Probe("host_panic_propagated")
		default:
			return fail("go_panic_escaped", "Run panicked with %T: %v", pv, clip(fmt.Sprint(pv))), false
		}
	} else if err != nil {
		st.Probe("returned_error")
		if strings.Contains(err.Error(), "RangeError") && c.Fault == "limit" {
			st.Probe("limit_rangeerror")
		}
	} else {
		st.Probe("returned_value")
	}
	if d, l := vm.VerifScopeDepth(), vm.VerifLabelCount(); d != 0 || l != 0 {
		return fail("not_at_rest", "scope depth %d, labels %d after the call", d, l), false
	}
	for len(vm.Interrupt) > 0 {
		<-vm.Interrupt
	}
	fv, ferr, fp, fpv := protectedRun(vm, "__k=0;(function(a){return a+1})(1)")
	if fp || ferr != nil || valStr(fv) != "2" {
		return fail("runtime_unusable_afterwards", "follow-up script gave value=%s err=%v panic=%v", valStr(fv), ferr, fpv), false
	}
	return nil, !panicked
}

var recursionProgs = []string{
	"var a=[];a[0]=a;a.join()",
	"var a=[];a[0]=a;a.toString()",
	"var a=[];a[0]=a;String(a)",
	"var a=[];a[0]=a;a+''",
	"var a=[];a[0]=a;a.toLocaleString()",
	"var a=[];a[0]=[a];a.concat(a).join()",
	"var o={};o.toString=function(){return ''+o};''+o",
	"var o={valueOf:function(){return +o}};+o",
	"var o={valueOf:function(){return o<1}};o<1",
	"var o={toJSON:function(){return JSON.stringify(o)}};JSON.stringify(o)",
	"var o={get g(){return o.g}};o.g",
	"var o={};Object.defineProperty(o,'x',{get:function(){return o.x}});o.x",
	"var o={};Object.defineProperty(o,'x',{set:function(v){o.x=v}});o.x=1",
	"function f(){f()};f()",
	"function f(){return f.call(null)};f()",
	"function f(){return f.apply(null,[])};f()",
	"function f(){return f.bind(null)()};f()",
	"function f(){return new f()};f()",
	"function f(){[1].forEach(f)};f()",
	"function f(){return [1].map(f)};f()",
	"function f(){return [1,2].reduce(f)};f()",
	"function f(){return [2,1].sort(f)};f()",
	"function f(){return 'a'.replace(/a/,f)};f()",
	"function f(){return 'a'.replace('a',f)};f()",
	"function f(){return eval('f()')};f()",
	"function f(){return (0,eval)('f()')};f()",
	"function f(){return Function('return f()')()};f()",
	"function f(){return JSON.parse('[1]',f)};f()",
	"function f(){return JSON.stringify([1],f)};f()",
	"function f(){return Object.create({},{p:{get:f}}).p};f()",
	"function f(){return [f].join()};f.toString=function(){return f()};f()",
	"function f(){return isNaN({valueOf:f})};f()",
	"function f(){return String.prototype.concat.call({toString:f})};f()",
	"function f(){return new Date({valueOf:f})};f()",
	"function f(){return new RegExp({toString:f})};f()",
	"function f(){return parseInt({toString:f})};f()",
	"function f(){return Array.prototype.indexOf.call({length:{valueOf:f}},1)};f()",
	"function f(){return Math.max({valueOf:f})};f()",
	"function f(){return ({}).hasOwnProperty({toString:f})};f()",
	"function f(){return Function.prototype.toString.call(f)+f()};f()",
	"var d=0;function f(){if(d++<1e9)try{f()}catch(e){throw e}};f()",
	// cycles that run through built-ins only (no script function on the path)
	"var x={};x.toString=Function.prototype.call.bind(String,null,x);String(x)",
	"var x={};x.valueOf=Function.prototype.call.bind(Number,null,x);Number(x)",
	"var a=[];a[0]=a;a.toString=Function.prototype.call.bind(Array.prototype.join,a);String(a)",
	"var x={};x.toJSON=Function.prototype.call.bind(JSON.stringify,null,x);JSON.stringify(x)",
	"var x={};x.toString=Function.prototype.apply.bind(String,null,[x]);''+x",
	"var c=Function.prototype.call,b=c.bind(c);for(var i=0;i<300;i++)b=c.bind(c,b);b()",
	"var x={};Object.defineProperty(x,'p',{get:Function.prototype.call.bind(Object.getOwnPropertyDescriptor(x.__proto__||Object.prototype,'toString')&&String,null,x)});x.toString=function(){return x.p};String(x)",
}

func execRecursion(c *FSCase, st *Stats) (*Violation, interface{}, bool) {
	st.Runs++
	st.Fault("recursion_under_limit")
	st.NonTrivial++
	st.Sig(hashStr("rec", c.Prog, strconv.Itoa(c.K)))
	r := newFSRuntime()
	r.vm.SetStackDepthLimit(c.K)
	src := "var __K=-1;try{" + c.Prog + "}catch(__e){__K=(__e instanceof RangeError)?1:0};__K"
	val, err, panicked, pv := protectedRun(r.vm, src)
	fail := func(class, f string, a ...interface{}) (*Violation, interface{}, bool) {
		x := viol("C02", class, "`%s` under SetStackDepthLimit(%d): "+f, append([]interface{}{c.Prog, c.K}, a...)...)
		x.Key = "recursion " + c.Prog
		return x, c, true
	}
	if panicked {
		return fail("go_panic_escaped", "Run panicked with %T: %v", pv, clip(fmt.Sprint(pv)))
	}
	if err != nil {
		return fail("limit_error_not_catchable", "the error escaped the script's catch clause: %v", err)
	}
	if k, _ := val.ToInteger(); k != 1 {
		return fail("limit_error_not_catchable", "unbounded recursion ended with __K=%s (1 = a RangeError reached the script's catch)", valStr(val))
	}
	r.vm.SetStackDepthLimit(0)
	if d, l := r.vm.VerifScopeDepth(), r.vm.VerifLabelCount(); d != 0 || l != 0 {
		return fail("not_at_rest", "scope depth %d, labels %d afterwards", d, l)
	}
	fv, ferr, fp, fpv := protectedRun(r.vm, "(function(a){return a+1})(1)")
	if fp || ferr != nil || valStr(fv) != "2" {
		return fail("runtime_unusable_afterwards", "follow-up script gave value=%s err=%v panic=%v", valStr(fv), ferr, fpv)
	}
	return nil, nil, true
}

// execPropSweep reads, describes and writes every property visible on an
// instance of the kind (own and inherited), also through an object that merely
// inherits from the instance, one access per Run so that no script try/catch
// can mask a Go panic.
func execPropSweep(c *FSCase, st *Stats) (*Violation, interface{}, bool) {
	r := newFSRuntime()
	nv, err := r.vm.Run("(function(){var o=__mk('" + c.Recv + "'),p=o,n=[],d=0;if(o===undefined||o===null)return '';p=Object(o);while(p!==null&&d++<4){n=n.concat(Object.getOwnPropertyNames(p));p=Object.getPrototypeOf(p)}return n.join('\\n')})()")
	if err != nil {
		return nil, nil, true
	}
	seen := map[string]bool{}
	for _, name := range strings.Split(nv.String(), "\n") {
		if name == "" || seen[name] || strings.ContainsAny(name, "'\\\n") {
			continue
		}
		seen[name] = true
		for mode, tmpl := range []string{
			"__mk('%s')['%s']",
			"Object.create(Object(__mk('%s')))['%s']",
			"Object.getOwnPropertyDescriptor(Object(__mk('%s')),'%s')",
			"(function(){var o=__mk('%s');o['%s']=1;return o})()",
			"(function(){var o=Object.create(Object(__mk('%s')));o['%s']=1;return o})()",
			"(function(){var o=__mk('%s');return delete o['%s']})()",
		} {
			st.Runs++
			st.Fault("prop_access")
			src := fmt.Sprintf(tmpl, c.Recv, name)
			_, _, panicked, pv := protectedRun(r.vm, src)
			if panicked {
				x := viol("C02", "go_panic_escaped", "`%s`: Run panicked with %T: %v", src, pv, clip(fmt.Sprint(pv)))
				x.Key = fmt.Sprintf("prop %s.%s mode %d", c.Recv, name, mode)
				if kf := isKnown(x); kf != nil {
					st.Known[kf.Property+" "+kf.Key]++
					r = newFSRuntime()
					continue
				}
				if collectMode {
					st.Probes["COLLECT "+x.Class+" | "+x.Key+" | "+clip(x.Detail)]++
					r = newFSRuntime()
					continue
				}
				return x, &FSCase{Engine: "faultsweep", Prog: src, Fault: "prop"}, true
			}
			if d := r.vm.VerifScopeDepth(); d != 0 {
				x := viol("C02", "not_at_rest", "`%s`: scope depth %d afterwards", src, d)
				return x, &FSCase{Engine: "faultsweep", Prog: src, Fault: "prop"}, true
			}
		}
	}
	st.NonTrivial++
	st.Sig(hashStr("props", c.Recv))
	return nil, nil, true
}

// execOOMProbe: array generics size an allocation by ToUint32(length) of an
// array-like receiver. The cell is executed in a child process with a capped
// address space so that the allocation failure kills only that child.
func execOOMProbe(c *FSCase, st *Stats) (*Violation, interface{}, bool) {
	if !singleCaseProcess {
		os.Setenv("VERIF_RLIMIT_MB", "3000")
		os.Setenv("VERIF_CHILD_TIMEOUT_S", "20")
		v, rc, ok := isolatedExec(fsEngine{}, c, st)
		os.Unsetenv("VERIF_RLIMIT_MB")
		os.Unsetenv("VERIF_CHILD_TIMEOUT_S")
		if v != nil && c.Fault == "crashprobe" {
			v.Key = "recursion-unaccounted " + c.Prog
			return v, rc, ok
		}
		if v != nil {
			// either the allocation fails (process dies) or, where memory is not
			// capped, it succeeds and 2^32-1 iterations follow (process wedged):
			// the same defect
			v.Key = "oom " + cellKey(c)
			if v.Class == "process_crash" || v.Class == "process_wedged" {
				v.Class = "process_killed_or_wedged_by_huge_length"
			}
		}
		return v, rc, ok
	}
	applyRlimit()
	if c.Fault == "crashprobe" {
		st.Fault("unaccounted_recursion_under_limit")
		st.NonTrivial++
		st.Sig(hashStr("crashprobe", c.Prog))
		cc := *c
		cc.Fault = ""
		return execRecursion(&cc, st)
	}
	st.Fault("huge_length_allocation")
	st.NonTrivial++
	st.Sig(hashStr("oom", cellKey(c)))
	r := newFSRuntime()
	cc := *c
	cc.Fault = "none"
	v, _ := runCell(r, &cc, st)
	if v != nil {
		return v, c, true
	}
	return nil, nil, true
}

func applyRlimit() {
	if mb, _ := strconv.Atoi(os.Getenv("VERIF_RLIMIT_MB")); mb > 0 {
		lim := syscall.Rlimit{Cur: uint64(mb) << 20, Max: uint64(mb) << 20}
		syscall.Setrlimit(syscall.RLIMIT_AS, &lim)
	}
}

func (e fsEngine) Exec(ci interface{}, st *Stats) (*Violation, interface{}, bool) {
	c := ci.(*FSCase)
	st.Cases++
	if c.Fault == "oomprobe" || c.Fault == "crashprobe" {
		return execOOMProbe(c, st)
	}
	if c.Fault == "goapi" {
		st.Runs++
		if bad := goAPIWithString(newFSRuntime().vm, c.Prog); bad != "" {
			return viol("C02", "go_panic_escaped", "Go API with the string %q: %s", c.Prog, bad), c, true
		}
		return nil, nil, true
	}
	if c.Fault == "gostr" {
		r := newFSRuntime()
		r.vm.Set("__gs", invalidGoStrings[c.K])
		st.Runs++
		val, err, panicked, pv := protectedRun(r.vm, c.Prog)
		if panicked {
			return viol("C02", "go_panic_escaped", "with S = the Go string %q set through Otto.Set, `%s`: Run panicked with %T: %v", invalidGoStrings[c.K], c.Prog, pv, clip(fmt.Sprint(pv))), c, true
		}
		if err == nil {
			if bad := valueAccessors(r.vm, val); bad != "" {
				return viol("C02", "go_panic_escaped", "`%s`: %s", c.Prog, bad), c, true
			}
		}
		return nil, nil, true
	}
	if c.Fault == "prop" && c.Prog != "" {
		r := newFSRuntime()
		st.Runs++
		// a text that simply does not terminate is cut off by a panicking interrupt
		// function (which no script try can intercept) and not judged
		steps, capped := 0, false
		otto.VerifStep = func(o *otto.Otto, k otto.VerifStepKind, n interface{}) {
			if steps++; steps%300000 == 0 && o.Interrupt != nil {
				capped = true
				select {
				case o.Interrupt <- func() { panic(harnessAbort{"step cap"}) }:
				default:
				}
			}
		}
		defer func() { otto.VerifStep = nil }()
		val, err, panicked, pv := protectedRun(r.vm, c.Prog)
		if _, injected := pv.(hostPanicVal); panicked && injected {
			return nil, nil, true // the program's own host function panicked: allowed out
		}
		if _, cut := pv.(harnessAbort); panicked && cut && capped {
			st.Probe("nonterminating_text_cut_off")
			return nil, nil, true
		}
		if panicked {
			return viol("C02", "go_panic_escaped", "`%s`: Run panicked with %T: %v", c.Prog, pv, clip(fmt.Sprint(pv))), c, true
		}
		if err == nil {
			if bad := valueAccessors(r.vm, val); bad != "" {
				return viol("C02", "go_panic_escaped", "`%s`: %s", c.Prog, bad), c, true
			}
		}
		return nil, nil, true
	}
	if c.Fault == "propsweep" {
		return execPropSweep(c, st)
	}
	if c.Fault == "descsweep" {
		return execDescSweep(c, st)
	}
	if c.Fault == "argsweep" {
		return execArgSweep(c, st)
	}
	if c.Fault == "cycleprobe" {
		return execCycleProbe(c, st)
	}
	if c.Fault == "nestprobe" {
		return execNestProbe(c, st)
	}
	if c.Fault == "history" {
		return execHistory(c, st)
	}
	if c.Fault == "strsweep" {
		return execStrSweep(c, st)
	}
	if c.Fault == "opsweep" {
		return execOpSweep(c, st)
	}
	if c.Fault == "apistate" {
		return execAPIState(c, st)
	}
	if c.Fault == "apisweep" {
		// uncaught throw of a value of this kind, and the Value/Object accessors
		// on a returned value of this kind, under every fault
		for _, path := range []string{"@throw", "@return"} {
			for _, f := range [][2]interface{}{{"none", 0}, {"throw", 1}, {"throw", 2}, {"throw", 3}, {"throw", 5}, {"host", 1}, {"host", 2}, {"irq", 1}, {"irq", 2}, {"limit", 2}, {"limit", 3}, {"limit", 4}} {
				cc := &FSCase{Engine: "faultsweep", Path: path, Recv: c.Recv, Args: []string{}, Fault: f[0].(string), K: f[1].(int)}
				r := newFSRuntime()
				v, _ := runCell(r, cc, st)
				if v != nil {
					if kf := isKnown(v); kf != nil {
						st.Known[kf.Property+" "+kf.Key]++
						continue
					}
					if collectMode && v.Key != "" {
						st.Probes["COLLECT "+v.Class+" | "+v.Key+" | "+clip(v.Detail)]++
						continue
					}
					return v, cc, true
				}
			}
		}
		st.NonTrivial++
		st.Sig(hashStr("api", c.Recv))
		return nil, nil, true
	}
	if c.Prog != "" {
		return execRecursion(c, st)
	}
	if c.Path != "" {
		r := newFSRuntime()
		v, _ := runCell(r, c, st)
		if v != nil {
			return v, c, true
		}
		return nil, nil, true
	}
	// sweep a range of the discovered surface completely
	to := c.To
	if to > len(builtinPaths) {
		to = len(builtinPaths)
	}
	for pi := c.From; pi < to; pi++ {
		path := builtinPaths[pi]
		r := newFSRuntime()
		try := func(cell *FSCase) *Violation {
			v, reuse := runCell(r, cell, st)
			if !reuse {
				r = newFSRuntime()
			}
			if v != nil {
				if kf := isKnown(v); kf != nil {
					st.Known[kf.Property+" "+kf.Key]++
					return nil
				}
				if collectMode && v.Key != "" {
					st.Probes["COLLECT "+v.Class+" | "+v.Key+" | "+clip(v.Detail)]++
					return nil
				}
			}
			return v
		}
		faults := [][2]interface{}{{"none", 0}, {"throw", 1}, {"throw", 2}, {"throw", 3}, {"host", 1}, {"irq", 1}, {"irq", 2}, {"limit", 3}, {"limit", 4}, {"limit", 5}, {"limit", 6}}
		for _, isNew := range []bool{false, true} {
			if isNew && strings.Contains(path, ".prototype.") {
				continue
			}
			// one varying position at a time, the others benign
			for pos := 0; pos < 3 && !c.Pairs; pos++ {
				for _, kind := range fsKinds {
					cell := &FSCase{Engine: "faultsweep", Path: path, New: isNew, Recv: defaultRecv(path), Args: []string{"number", "number"}}
					switch pos {
					case 0:
						if isNew {
							continue
						}
						cell.Recv = kind
					case 1:
						cell.Args[0] = kind
					case 2:
						cell.Args[1] = kind
					}
					trap := strings.HasPrefix(kind, "trap")
					for _, f := range faults {
						fk := f[0].(string)
						if !trap && fk != "none" && fk != "limit" {
							continue // these faults fire inside trap callbacks only
						}
						if !trap && fk == "limit" && f[1].(int) > 4 {
							continue
						}
						cc := *cell
						cc.Args = append([]string(nil), cell.Args...)
						cc.Fault, cc.K = fk, f[1].(int)
						if v := try(&cc); v != nil {
							return v, &cc, true
						}
					}
				}
			}
			if c.Pairs {
				for _, k1 := range pairKinds {
					for _, k2 := range pairKinds {
						for _, k3 := range []string{"number", "trap", "undefined", "string"} {
							for _, f := range [][2]interface{}{{"none", 0}, {"throw", 2}, {"throw", 4}, {"irq", 3}, {"limit", 5}} {
								cc := FSCase{Engine: "faultsweep", Path: path, New: isNew, Recv: k1, Args: []string{k2, k3}, Fault: f[0].(string), K: f[1].(int)}
								if v := try(&cc); v != nil {
									return v, &cc, true
								}
							}
						}
					}
				}
			}
		}
		st.Sig(hashStr("path", path))
		st.NonTrivial++
	}
	st.Exhaustive++
	return nil, nil, true
}

var collectMode bool

// zooEnv defines the free names the syntax zoo uses, so that its items run to
// completion instead of stopping at the first ReferenceError.
const zooEnv = "var a=1,b=2,c=3,d=4,e=5,f=function(){return f},g=6,h=7,i=0,j=8,k='p',l=9,m=10,o={p:1,a:{},b:{c:function(){return o},if:1,new:{typeof:2},in:[1,[2]]},in:[1,[2]]},q,r,s='s',t,u,v,w,x=0,y=1,z=2;\n"

// every operator and syntactic form applied to a value of each kind, one per
// Run (no script try/catch that could mask a Go panic)
var opForms = []string{
	"new R", "new R(1,R)", "R()", "R(1,2)", "R.call(R)", "R.x", "R[0]", "R[R]", "R.x=1", "R[0]=R", "delete R.x", "delete R[0]", "'x' in R", "0 in R",
	"R instanceof Object", "({}) instanceof R", "R instanceof R", "typeof R", "void R", "!R", "-R", "+R", "~R", "var q=R;q++", "var q=R;--q", "R+1", "R+'s'", "R+R", "R-1", "R*R", "R/2", "R%2",
	"R<<1", "R>>1", "R>>>1", "R&1", "R|1", "R^R", "R<1", "R<=R", "R>R", "R==R", "R==1", "R=='1'", "R===R", "R!=null", "R&&1", "R||1", "R?1:2", "for(var k in R){}", "with(Object(R)){}", "with(R){}",
	"switch(R){case R:break;case 1:}", "throw R", "[R,R].join()", "[R].concat(R)", "String(R)", "Number(R)", "Boolean(R)", "Object(R)", "JSON.stringify(R)", "JSON.stringify({a:R})", "Object.keys(Object(R))",
	"R.toString()", "R.valueOf()", "R.constructor", "R.length", "R.prototype", "R.name", "R.caller", "R.arguments", "Object.getPrototypeOf(Object(R))", "Object.create(Object(R))", "Object.freeze(Object(R))",
	"(function(){return this}).call(R)", "(function(){return arguments}).apply(null,Object(R))", "Function.prototype.apply.call(R,R,R)", "Function.prototype.bind.call(R,R)", "new (Function.prototype.bind.call(R,R))",
	"isNaN(R)", "parseInt(R)", "parseFloat(R)", "encodeURIComponent(R)", "new Date(R)", "new RegExp(R)", "new Array(R)", "new Error(R)", "new String(R)", "new Number(R)", "Math.max(R,R)", "[3,1].sort(R)", "'a'.replace('a',R)", "'a'.split(R)",
}

func execOpSweep(c *FSCase, st *Stats) (*Violation, interface{}, bool) {
	r := newFSRuntime()
	for _, form := range opForms {
		src := "(function(){var R=__mk('" + c.Recv + "');return (function(){" + asStatement(form) + "})()})()"
		st.Runs++
		st.Fault("operator_form")
		val, err, panicked, pv := protectedRun(r.vm, src)
		bad := ""
		if panicked {
			bad = fmt.Sprintf("Run panicked with %T: %v", pv, clip(fmt.Sprint(pv)))
			r = newFSRuntime()
		} else if err == nil {
			bad = valueAccessors(r.vm, val)
		}
		if bad != "" {
			x := viol("C02", "go_panic_escaped", "`%s` with R of kind %s: %s", form, c.Recv, bad)
			x.Key = "op " + form + " kind " + c.Recv
			if kf := isKnown(x); kf != nil {
				st.Known[kf.Property+" "+kf.Key]++
				continue
			}
			if collectMode {
				st.Probes["COLLECT "+x.Class+" | "+x.Key+" | "+clip(x.Detail)]++
				continue
			}
			return x, &FSCase{Engine: "faultsweep", Prog: src, Fault: "prop"}, true
		}
	}
	st.NonTrivial++
	st.Sig(hashStr("ops", c.Recv))
	return nil, nil, true
}

// runtime states that make the Go-side API run hostile script code
var apiStates = []string{
	"Object.defineProperty(this,'tg',{get:function(){throw new Error('g')},enumerable:true,configurable:true})",
	"this.tv={valueOf:function(){throw 1},toString:function(){throw 2}}",
	"Object.defineProperty(Object.prototype,'ip',{get:function(){throw 3},enumerable:true,configurable:true})",
	"Object.prototype.toString=function(){throw 4};Object.prototype.valueOf=function(){throw 5}",
	"Array.prototype.join=function(){throw 6};Function.prototype.toString=null",
	"String=null;Number=undefined;Object=5;Array=function(){throw 7}",
	"Error.prototype.toString=function(){throw 8};Error.prototype.name={toString:function(){throw 9}}",
	"delete this.undefined;this.NaN=1;delete this.Object;delete this.Function",
}

func execAPIState(c *FSCase, st *Stats) (*Violation, interface{}, bool) {
	state := apiStates[c.From]
	r := newFSRuntime()
	bad := ""
	try := func(name string, f func()) {
		if bad != "" {
			return
		}
		st.Runs++
		st.Fault("api_on_hostile_state")
		defer func() {
			if x := recover(); x != nil {
				bad = fmt.Sprintf("%s panicked with %T: %v", name, x, clip(fmt.Sprint(x)))
			}
		}()
		f()
	}
	vm := r.vm
	try("Run(state)", func() { vm.Run(state) })
	vm.Set("hctx", func(call otto.FunctionCall) otto.Value {
		try("Context inside a host function", func() { call.Otto.Context(); call.Otto.ContextLimit(1); call.Otto.ContextSkip(3, true) })
		try("CallerLocation", func() { _ = call.CallerLocation() })
		return otto.UndefinedValue()
	})
	try("Context", func() { vm.Context(); vm.ContextLimit(2) })
	try("host function entered from Go with the runtime at rest", func() {
		if fn, err := vm.Get("hctx"); err == nil {
			fn.Call(otto.NullValue())
			vm.Call("hctx", nil)
			if o := fn.Object(); o != nil {
				o.Call("call", nil)
			}
		}
	})
	try("Get", func() {
		for _, n := range []string{"tg", "tv", "ip", "Object", "nosuch"} {
			if v, err := vm.Get(n); err == nil {
				_ = v.String()
				v.ToInteger()
				v.Export()
				v.IsNaN()
			}
		}
	})
	try("Run with host", func() {
		vm.Run("function f(a){var loc={get q(){throw 2}};with({get w(){throw 3}}){hctx()}}f(1)")
	})
	try("Run error rendering", func() {
		if _, err := vm.Run("throw new Error('x')"); err != nil {
			_ = err.Error()
			if oe, ok := err.(*otto.Error); ok {
				_ = oe.String()
			}
		}
		if _, err := vm.Run("null.x"); err != nil {
			_ = err.Error()
		}
	})
	try("Set/ToValue", func() {
		vm.Set("zz", map[string]interface{}{"a": []int{1, 2}})
		vm.Set("zf", func(a int) int { return a })
		vm.ToValue([]string{"x"})
		vm.Run("zz.a[0]+zf(1)")
	})
	try("Call", func() {
		vm.Call("f", nil, 1)
		vm.Call("new f", nil)
		vm.Call("String", nil, 1)
		vm.Call("tv.valueOf", nil)
	})
	try("Object", func() {
		if o, err := vm.Object("({a:1,get b(){throw 1}})"); err == nil && o != nil {
			o.Keys()
			o.Get("b")
			o.Set("b", 2)
			o.MarshalJSON()
			o.Value().Export()
		}
	})
	try("Copy", func() {
		cp := vm.Copy()
		cp.Run("1+1")
		cp.Context()
	})
	try("Compile+Run", func() {
		if s, err := vm.Compile("", "tg"); err == nil {
			vm.Run(s)
		}
	})
	if bad != "" {
		x := viol("C02", "go_panic_escaped", "after `%s`: %s", state, bad)
		x.Key = "apistate " + strconv.Itoa(c.From)
		if kf := isKnown(x); kf != nil {
			st.Known[kf.Property+" "+kf.Key]++
			return nil, nil, true
		}
		if collectMode {
			st.Probes["COLLECT "+x.Class+" | "+x.Key+" | "+clip(x.Detail)]++
			return nil, nil, true
		}
		return x, c, true
	}
	st.NonTrivial++
	st.Sig(hashStr("apistate", state))
	return nil, nil, true
}

func asStatement(form string) string {
	for _, kw := range []string{"for(", "with(", "switch(", "throw ", "var "} {
		if strings.HasPrefix(form, kw) {
			return form
		}
	}
	return "return " + form
}

// well-formed "special" strings; every prefix of each (a token cut short at an
// arbitrary point) is fed, as a plain and as a UTF-16 backed string, to every
// built-in in several call shapes
var strTemplates = []string{
	"$10$2$&$`$'$$", "x$1y$25z", "%u0041%u12G4", "%E4%B8%AD%F0%9F%98%80", "%25%2", "a(b(?:c)(?=d)(?!e))[f-h]{2,3}\\1\\b\\u0041\\x41\\cA",
	"(?<n>a)\\k<n>", "[\\]-a]{1,", "{\"a\":[1,2.5e3,\"\\u00e9\\n\",true,null,{\"b\":{}}]}", "2001-02-03T04:05:06.789+01:30",
	"Sat, 03 Feb 2001 04:05:06 GMT", "0x1F.8e+3", "-1.5e-310", "12345678901234567890123", "\\u{1F600}\\ud83d\\ude00\\0", "http://a:b@c.d:80/e;f?g=h&i=%C3%A9#j",
	"}) + (function(){", "a,b){return 1}, function(c", "return /*", "//# sourceMappingURL=data:application/json;base64,e30=", "use strict", "__proto__",
	"constructor", "valueOf", "toString", "length", "\\", "\u2028\u2029\ufeff\u00a0",
}

func execStrSweep(c *FSCase, st *Stats) (*Violation, interface{}, bool) {
	tmpl := strTemplates[c.From]
	r := newFSRuntime()
	runes := []rune(tmpl)
	shapes := []string{
		"%[1]s.call(S)", "%[1]s.call(S,S)", "%[1]s.call('ab2,c',S)", "%[1]s.call('ab2,c',/b(2)?/g,S)", "%[1]s.call('ab2,c','b',S)",
		"%[1]s.call(S,/a/,S)", "%[1]s(S)", "%[1]s(S,S)", "new %[1]s(S)", "new %[1]s(S,S)", "%[1]s.call(S,1,S)", "%[1]s.call([S,S],S)",
	}
	paths := append(append([]string{}, builtinPaths...), "Function", "eval", "Date")
	seed, _ := strconv.Atoi(os.Getenv("VERIF_SEED"))
	for n := 0; n <= len(runes); n++ {
		if !c.Pairs && len(runes) > 16 && n != 0 && n != len(runes) && (n+seed)%4 != 0 {
			continue // quick tier: a seed-selected quarter of the cut points (plus both ends)
		}
		prefix := string(runes[:n])
		for enc := 0; enc < 2; enc++ {
			var mk string
			if enc == 0 {
				mk = strconv.Quote(prefix)
			} else {
				var codes []string
				for _, u := range utf16.Encode([]rune(prefix)) {
					codes = append(codes, strconv.Itoa(int(u)))
				}
				mk = "String.fromCharCode(" + strings.Join(codes, ",") + ")"
			}
			if enc == 0 {
				// the same text handed to the Go API as source, as a name, as a value
				if bad := goAPIWithString(r.vm, prefix); bad != "" {
					x := viol("C02", "go_panic_escaped", "Go API with the string %q: %s", prefix, bad)
					x.Key = "goapi " + bad
					if collectMode {
						st.Probes["COLLECT "+x.Class+" | "+x.Key+" | "+clip(x.Detail)]++
						r = newFSRuntime()
					} else if kf := isKnown(x); kf != nil {
						st.Known[kf.Property+" "+kf.Key]++
						r = newFSRuntime()
					} else {
						return x, &FSCase{Engine: "faultsweep", Prog: prefix, Fault: "goapi"}, true
					}
				}
			}
			for _, path := range paths {
				if path == "Date" && true {
					// Date(S) as a function reads the clock but asserts nothing on the value
				}
				for si, shape := range shapes {
					if strings.HasPrefix(shape, "new ") && strings.Contains(path, ".prototype.") {
						continue
					}
					if !c.Pairs && (si+n+enc)%2 == 1 {
						continue // quick tier: half of the call shapes per cut point
					}
					src := "(function(){var S=" + mk + ";return " + fmt.Sprintf(shape, path) + "})()"
					st.Runs++
					st.Fault("token_truncated_string")
					val, err, panicked, pv := protectedRun(r.vm, src)
					bad := ""
					if panicked {
						bad = fmt.Sprintf("Run panicked with %T: %v", pv, clip(fmt.Sprint(pv)))
					} else if err == nil && si%4 == 0 {
						bad = valueAccessors(r.vm, val)
					}
					if panicked {
						r = newFSRuntime()
					}
					if bad != "" {
						x := viol("C02", "go_panic_escaped", "`%s`: %s", src, bad)
						x.Key = "str " + path + " shape " + strconv.Itoa(si)
						if kf := isKnown(x); kf != nil {
							st.Known[kf.Property+" "+kf.Key]++
							continue
						}
						if collectMode {
							st.Probes["COLLECT "+x.Class+" | "+x.Key+" | "+clip(x.Detail)]++
							continue
						}
						return x, &FSCase{Engine: "faultsweep", Prog: src, Fault: "prop"}, true
					}
				}
			}
		}
	}
	if c.From == 0 {
		// Go strings that are not valid UTF-8, handed in through the API and then
		// given to every built-in (script source cannot produce them)
		for gi, gs := range invalidGoStrings {
			r.vm.Set("__gs", gs)
			for _, path := range paths {
				for si, shape := range shapes {
					if strings.HasPrefix(shape, "new ") && strings.Contains(path, ".prototype.") {
						continue
					}
					src := "(function(){var S=__gs;return " + fmt.Sprintf(shape, path) + "})()"
					st.Runs++
					st.Fault("invalid_utf8_go_string")
					val, err, panicked, pv := protectedRun(r.vm, src)
					bad := ""
					if panicked {
						bad = fmt.Sprintf("Run panicked with %T: %v", pv, clip(fmt.Sprint(pv)))
						r = newFSRuntime()
						r.vm.Set("__gs", gs)
					} else if err == nil && si%4 == 0 {
						bad = valueAccessors(r.vm, val)
					}
					if bad != "" {
						x := viol("C02", "go_panic_escaped", "with S = the Go string %q set through Otto.Set, `%s`: %s", gs, src, bad)
						x.Key = "gostr " + strconv.Itoa(gi) + " " + path + " shape " + strconv.Itoa(si)
						if kf := isKnown(x); kf != nil {
							st.Known[kf.Property+" "+kf.Key]++
							continue
						}
						if collectMode {
							st.Probes["COLLECT "+x.Class+" | "+x.Key+" | "+clip(x.Detail)]++
							continue
						}
						return x, &FSCase{Engine: "faultsweep", Fault: "gostr", Prog: src, K: gi}, true
					}
				}
			}
		}
	}
	st.NonTrivial++
	st.Sig(hashStr("str", tmpl))
	return nil, nil, true
}

var invalidGoStrings = []string{"\xff", "a\xc3", "\xed\xa0\x80z", "\xf8\x88\x80\x80\x80", "ok\x80\xbf"}

// short operation histories on one array / object: receiver states that no
// single call creates (non-configurable elements, rolled-back length, ...)
var histOps = []string{
	"Object.defineProperty(a,1,{value:7,configurable:false})",
	"Object.defineProperty(a,'length',{writable:false})",
	"a.length=1",
	"a.length=0",
	"a.length=5",
	"a.push(9)",
	"a.pop()",
	"a.shift()",
	"a.unshift(0)",
	"a.splice(1,1)",
	"a.sort()",
	"a.reverse()",
	"delete a[1]",
	"a[7]=1",
	"Object.freeze(a)",
	"Object.preventExtensions(a)",
	"a.forEach(function(x){})",
	"a.concat(a).join()",
	"Object.defineProperty(a,0,{get:function(){return 1},configurable:true})",
	"JSON.stringify(a)",
}

func execHistory(c *FSCase, st *Stats) (*Violation, interface{}, bool) {
	// c.From encodes the first operation; all continuations of length 2 are swept
	n := len(histOps)
	for j := 0; j < n; j++ {
		for k := 0; k < n; k++ {
			for _, recv := range []string{"[1,2,3]", "{0:1,1:2,length:2}"} {
				src := "(function(){var a=" + recv + ";try{" + histOps[c.From] + "}catch(e1){}try{" + histOps[j] + "}catch(e2){}" + histOps[k] + ";return a})()"
				st.Runs++
				st.Fault("history_step")
				r := newFSRuntime()
				val, err, panicked, pv := protectedRun(r.vm, src)
				bad := ""
				if panicked {
					bad = fmt.Sprintf("Run panicked with %T: %v", pv, clip(fmt.Sprint(pv)))
				} else if err == nil {
					bad = valueAccessors(r.vm, val)
				}
				if bad != "" {
					x := viol("C02", "go_panic_escaped", "`%s`: %s", src, bad)
					x.Key = "history " + src
					if kf := isKnown(x); kf != nil {
						st.Known[kf.Property+" "+kf.Key]++
						continue
					}
					return x, &FSCase{Engine: "faultsweep", Prog: src, Fault: "prop"}, true
				}
			}
		}
	}
	st.NonTrivial++
	st.Sig(hashStr("hist", histOps[c.From]))
	return nil, nil, true
}

// Enumerate lists the finite case space: one case per slice of the surface.
func (fsEngine) Enumerate(tier string) []interface{} {
	width := 4
	var out []interface{}
	seed, _ := strconv.Atoi(os.Getenv("VERIF_SEED"))
	for i, from := 0, 0; from < len(builtinPaths); i, from = i+1, from+width {
		out = append(out, &FSCase{Engine: "faultsweep", From: from, To: from + width})
	}
	// all kind pairs: for every function in the thorough tier, for a seed-selected
	// sixteenth of the surface in the quick tier; one function per case
	for i := range builtinPaths {
		if tier == "thorough" || (i+seed)%16 == 0 {
			out = append(out, &FSCase{Engine: "faultsweep", From: i, To: i + 1, Pairs: true})
		}
	}
	for _, k := range fsKinds {
		out = append(out, &FSCase{Engine: "faultsweep", Fault: "propsweep", Recv: k})
		out = append(out, &FSCase{Engine: "faultsweep", Fault: "apisweep", Recv: k})
		out = append(out, &FSCase{Engine: "faultsweep", Fault: "opsweep", Recv: k})
	}
	for i := range histOps {
		out = append(out, &FSCase{Engine: "faultsweep", Fault: "history", From: i})
	}
	for i := range apiStates {
		out = append(out, &FSCase{Engine: "faultsweep", Fault: "apistate", From: i})
	}
	for i := range descHolders {
		out = append(out, &FSCase{Engine: "faultsweep", Fault: "descsweep", From: i, Pairs: tier == "thorough"})
	}
	for i := range argOps {
		out = append(out, &FSCase{Engine: "faultsweep", Fault: "argsweep", From: i, Pairs: tier == "thorough"})
	}
	for _, p := range cycleProgs {
		out = append(out, &FSCase{Engine: "faultsweep", Fault: "cycleprobe", Prog: p})
	}
	for _, p := range bridgeProgs() {
		out = append(out, &FSCase{Engine: "faultsweep", Fault: "prop", Prog: p})
	}
	for _, p := range labelProgs() {
		out = append(out, &FSCase{Engine: "faultsweep", Fault: "prop", Prog: p})
	}
	// every syntactic form of the parser engine's zoo is also executed: bare (most
	// stop early on an unresolvable name) and with its free names defined
	for _, z := range syntaxZoo {
		// (completion value 0: the accessor battery calls a returned function, and
		// some items evaluate to functions that loop for ever when called)
		out = append(out, &FSCase{Engine: "faultsweep", Fault: "prop", Prog: z + "\n;0"})
		out = append(out, &FSCase{Engine: "faultsweep", Fault: "prop", Prog: zooEnv + z + "\n;0"})
	}
	// nesting that every implementation must survive (all kinds), and nesting that
	// is known to kill the process (see known_findings.json): the recursive-descent
	// parser, the compiler pass and the tree evaluator recurse once per level and
	// none of them counts towards SetStackDepthLimit
	for _, k := range nestKinds {
		out = append(out, &FSCase{Engine: "faultsweep", Fault: "nestprobe", Recv: k, K: 5000})
	}
	for i, k := range nestDeadly {
		if tier == "thorough" || i == seed%len(nestDeadly) {
			out = append(out, &FSCase{Engine: "faultsweep", Fault: "nestprobe", Recv: k, K: 4000000})
		}
	}
	for i := range strTemplates {
		out = append(out, &FSCase{Engine: "faultsweep", Fault: "strsweep", From: i, Pairs: tier == "thorough"})
	}
	// recursion carried by Go code that enters no script context per level: only
	// safe to try in a child process (a fatal stack overflow cannot be recovered)
	for _, p := range []string{
		"var s='eval(s)';eval(s)",
		"JSON.stringify({},function(k,v){return {a:1}})",
	} {
		out = append(out, &FSCase{Engine: "faultsweep", Fault: "crashprobe", Prog: p, K: 64})
	}
	out = append(out, &FSCase{Engine: "faultsweep", Fault: "oomprobe", Path: "Array.prototype.toLocaleString", Recv: "neg_length", Args: []string{}})
	out = append(out, &FSCase{Engine: "faultsweep", Fault: "oomprobe", Path: "Array.prototype.join", Recv: "neg_length", Args: []string{}})
	out = append(out, &FSCase{Engine: "faultsweep", Fault: "oomprobe", Path: "Function.prototype.apply", Recv: "function", Args: []string{"null", "neg_length"}})
	for _, p := range recursionProgs {
		for _, L := range []int{2, 3, 5, 9, 33, 200} {
			out = append(out, &FSCase{Engine: "faultsweep", Prog: p, K: L})
		}
	}
	return out
}

func (fsEngine) Gen(t *rapid.T, tier string) interface{} {
	// the grid is finite: a "case" is a slice of the surface, swept completely
	c := &FSCase{Engine: "faultsweep"}
	n := len(builtinPaths)
	width := 8
	if tier == "thorough" {
		c.Pairs = true
		width = 2
	}
	c.From = rapid.IntRange(0, (n-1)/width).Draw(t, "slice") * width
	c.To = c.From + width
	return c
}
