module ottosim

go 1.23

toolchain go1.23.5

require (
	github.com/robertkrimen/otto v0.0.0
	pgregory.net/rapid v1.3.0
)

require (
	golang.org/x/text v0.4.0 // indirect
	gopkg.in/sourcemap.v1 v1.0.5 // indirect
)

replace github.com/robertkrimen/otto => /repo
