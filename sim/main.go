package main

import (
	"bytes"
	"context"
	"encoding/json"
	"flag"
	"fmt"
	"os"
	"os/exec"
	"path/filepath"
	"regexp"
	"runtime"
	"sort"
	"strconv"
	"strings"
	"sync"
	"testing"
	"time"

	"pgregory.net/rapid"
)

// Engine is one simulator configuration serving one property.
type Engine interface {
	Name() string
	Property() string
	Init()
	Gen(t *rapid.T, tier string) interface{}
	Decode(b []byte) (interface{}, error)
	// Exec executes a case (a pure function of the case). replay is the
	// explicit case to store in a replay file when a violation is returned.
	Exec(c interface{}, st *Stats) (v *Violation, replay interface{}, valid bool)
}

var engines = map[string]Engine{}

func register(e Engine) { engines[e.Name()] = e }

func init() {
	register(stepEngine{})
	register(multiEngine{})
	register(copyEngine{})
	register(rfEngine{})
	register(fsEngine{})
}

// ---------------------------------------------------------------------------
// known findings (committed file, never written at run time)

type KnownFinding struct {
	Property    string `json:"property"`
	Key         string `json:"key"`
	Description string `json:"description"`
}

type KnownFile struct {
	Findings []KnownFinding `json:"findings"`
	Fixed    []string       `json:"fixed"`
}

var known KnownFile

func verifDir() string {
	if d := os.Getenv("VERIF_DIR"); d != "" {
		return d
	}
	return "/verif"
}

func loadKnown() {
	b, err := os.ReadFile(filepath.Join(verifDir(), "known_findings.json"))
	if err != nil {
		return
	}
	if err := json.Unmarshal(b, &known); err != nil {
		fatalf("known_findings.json: %v", err)
	}
}

func isKnown(v *Violation) *KnownFinding {
	if v == nil || v.Key == "" {
		return nil
	}
	for i := range known.Findings {
		if known.Findings[i].Property == v.Property && known.Findings[i].Key == v.Key {
			return &known.Findings[i]
		}
	}
	return nil
}

// ---------------------------------------------------------------------------
// rapid adapter

type rtb struct {
	name   string
	failed bool
	logs   []string
}

type tbStop struct{}

func (r *rtb) Helper()      {}
func (r *rtb) Name() string { return r.name }
func (r *rtb) Logf(f string, a ...any) {
	if os.Getenv("VERIF_VERBOSE") != "" {
		fmt.Fprintf(os.Stderr, f+"\n", a...)
	}
}
func (r *rtb) Log(a ...any)             { r.Logf("%s", fmt.Sprint(a...)) }
func (r *rtb) Skipf(f string, a ...any) { panic(tbStop{}) }
func (r *rtb) Skip(a ...any)            { panic(tbStop{}) }
func (r *rtb) SkipNow()                 { panic(tbStop{}) }
func (r *rtb) Errorf(f string, a ...any) {
	r.failed = true
	r.logs = append(r.logs, fmt.Sprintf(f, a...))
}
func (r *rtb) Error(a ...any)            { r.Errorf("%s", fmt.Sprint(a...)) }
func (r *rtb) Fatalf(f string, a ...any) { r.Errorf(f, a...); panic(tbStop{}) }
func (r *rtb) Fatal(a ...any)            { r.Fatalf("%s", fmt.Sprint(a...)) }
func (r *rtb) FailNow()                  { r.failed = true; panic(tbStop{}) }
func (r *rtb) Fail()                     { r.failed = true }
func (r *rtb) Failed() bool              { return r.failed }

// BatchResult is what a batch child reports to the parent.
type BatchResult struct {
	Engine    string      `json:"engine"`
	Seed      uint64      `json:"seed"`
	Checks    int         `json:"checks"`
	Stats     *Stats      `json:"stats"`
	Violation *Violation  `json:"violation,omitempty"`
	Case      interface{} `json:"case,omitempty"` // minimised explicit case
	Flaky     bool        `json:"flaky,omitempty"`
	Log       []string    `json:"log,omitempty"`
}

// isolatedExec runs one case in a fresh child process (used when a case can
// kill the process: race abort, fatal stack overflow).
func isolatedExec(eng Engine, c interface{}, st *Stats) (*Violation, interface{}, bool) {
	dir := os.Getenv("VERIF_SCRATCH")
	if dir == "" {
		dir = os.TempDir()
	}
	f, err := os.CreateTemp(dir, "isocase-*.json")
	if err != nil {
		fatalf("isolate: %v", err)
	}
	path := f.Name()
	f.Close()
	defer os.Remove(path)
	defer os.Remove(path + ".out")
	if err := writeJSON(path, c); err != nil {
		fatalf("isolate: %v", err)
	}
	self, _ := os.Executable()
	if childBin != "" {
		self = childBin
	}
	timeout := time.Duration(atoi(os.Getenv("VERIF_CHILD_TIMEOUT_S"), 240)) * time.Second
	ctx, cancel := context.WithTimeout(context.Background(), timeout)
	defer cancel()
	cmd := exec.CommandContext(ctx, self, "exec", "--engine", eng.Name(), "--case", path, "--out", path+".out")
	var stderr bytes.Buffer
	cmd.Stderr = &stderr
	cmd.Env = os.Environ()
	err = cmd.Run()
	code := 0
	if ctx.Err() == context.DeadlineExceeded {
		st.Runs++
		return &Violation{Property: eng.Property(), Class: "process_wedged", Detail: fmt.Sprintf("the case did not finish within %s in a process of its own (every engine bounds evaluation steps, so the time is spent inside otto's Go code)", timeout)}, c, true
	}
	if err != nil {
		if ee, ok := err.(*exec.ExitError); ok {
			code = ee.ExitCode()
		} else {
			fatalf("isolate: %v", err)
		}
	}
	st.Runs++
	switch code {
	case 0, 1, 4:
		b, err := os.ReadFile(path + ".out")
		if err != nil {
			fatalf("isolate: child wrote no result (exit %d): %s", code, stderr.String())
		}
		var br BatchResult
		if err := json.Unmarshal(b, &br); err != nil {
			fatalf("isolate: %v", err)
		}
		if br.Stats != nil {
			st.Merge(br.Stats)
		}
		if code == 4 {
			return nil, nil, false
		}
		if br.Violation != nil {
			rc := c
			if br.Case != nil {
				rb, _ := json.Marshal(br.Case)
				if dc, err := eng.Decode(rb); err == nil {
					rc = dc
				}
			}
			return br.Violation, rc, true
		}
		return nil, nil, true
	default:
		return crashViolation(eng, code, stderr.String()), c, true
	}
}

var raceFrameRe = regexp.MustCompile(`(?m)^\s+(github\.com/robertkrimen/otto[^\s(]*)\(`)

// crashViolation classifies a child that died: a race abort, a fatal Go
// error (stack exhaustion) — both are violations of the property, never
// harness trouble; anything else is reported as harness failure (exit 3).
func crashViolation(eng Engine, code int, stderr string) *Violation {
	prop := eng.Property()
	if strings.Contains(stderr, "WARNING: DATA RACE") {
		fr := raceFrameRe.FindAllStringSubmatch(stderr, 4)
		var top []string
		for _, m := range fr {
			top = append(top, m[1])
		}
		return &Violation{Property: prop, Class: "data_race", Detail: "race detector report; first otto frames: " + strings.Join(top, " | ") + "\n" + firstLines(stderr, 40)}
	}
	if strings.Contains(stderr, "batch child wedged") {
		return &Violation{Property: prop, Class: "process_wedged", Detail: firstLines(stderr, 3)}
	}
	if strings.Contains(stderr, "goroutine stack exceeds") || strings.Contains(stderr, "stack overflow") {
		return &Violation{Property: prop, Class: "go_stack_exhausted", Detail: firstLines(stderr, 12)}
	}
	if strings.Contains(stderr, "fatal error:") || strings.Contains(stderr, "panic:") {
		return &Violation{Property: prop, Class: "process_crash", Detail: firstLines(stderr, 6)}
	}
	fatalf("child exited %d without a recognisable report:\n%s", code, firstLines(stderr, 40))
	return nil
}

func firstLines(s string, n int) string {
	l := strings.Split(s, "\n")
	if len(l) > n {
		l = l[:n]
	}
	return strings.Join(l, "\n")
}

// BatchCtx identifies a batch prefix: a pure function of these values and the code.
type BatchCtx struct {
	Seed   uint64 `json:"seed"`
	Checks int    `json:"checks"`
	Tier   string `json:"tier"`
	Warm   bool   `json:"warm"`
	Index  int    `json:"index"`
}

var stopAfter int
var batchDeadline time.Time
var childBin string

// Enumerator is implemented by engines whose case space is finite: the parent
// then hands out index ranges instead of PRNG values.
type Enumerator interface {
	Enumerate(tier string) []interface{}
}

var enumFrom, enumTo = -1, -1

func runBatch(eng Engine, seed uint64, checks int, tier string, skip int, isolate bool, curPath string) *BatchResult {
	res := &BatchResult{Engine: eng.Name(), Seed: seed, Checks: checks, Stats: NewStats()}
	st := res.Stats
	curTier, curBatchSeed = tier, seed
	if en, ok := eng.(Enumerator); ok && enumFrom >= 0 {
		cases := en.Enumerate(tier)
		for i := enumFrom; i < enumTo && i < len(cases); i++ {
			if curPath != "" {
				writeJSON(curPath, map[string]interface{}{"index": i, "case": cases[i]})
			}
			v, rc, _ := eng.Exec(cases[i], st)
			if v != nil {
				if kf := isKnown(v); kf != nil {
					st.Known[kf.Property+" "+kf.Key]++
					continue
				}
				res.Violation, res.Case = v, rc
				break
			}
			if len(st.Samples) < 2 {
				st.AddSample(cases[i])
			}
		}
		st.Freeze()
		return res
	}
	flag.Set("rapid.seed", strconv.FormatUint(seed|1, 10))
	flag.Set("rapid.checks", strconv.Itoa(checks))
	flag.Set("rapid.nofailfile", "true")
	shrink := os.Getenv("VERIF_SHRINK_S")
	if shrink == "" {
		shrink = "25"
		if tier == "thorough" {
			shrink = "90"
		}
	}
	flag.Set("rapid.shrinktime", shrink+"s")

	var lastV *Violation
	var lastCase interface{}
	idx := 0
	failedOnce := false
	firstFail := 0
	prop := func(t *rapid.T) {
		c := eng.Gen(t, tier)
		idx++
		if !failedOnce && idx <= skip {
			return
		}
		if !failedOnce && stopAfter > 0 && idx > stopAfter {
			return
		}
		if !failedOnce && !batchDeadline.IsZero() && time.Now().After(batchDeadline) {
			st.Probes["cases_skipped_after_deadline"]++
			return
		}
		if curPath != "" {
			writeJSON(curPath, map[string]interface{}{"index": idx, "first_fail": firstFail, "case": c})
		}
		var v *Violation
		var rc interface{}
		var valid bool
		if isolate {
			v, rc, valid = isolatedExec(eng, c, st)
		} else {
			v, rc, valid = eng.Exec(c, st)
		}
		if !valid {
			t.Skip("invalid case")
		}
		if v != nil {
			if kf := isKnown(v); kf != nil {
				st.Known[kf.Property+" "+kf.Key]++
				return
			}
			if os.Getenv("VERIF_COLLECT") != "" && v.Key != "" {
				// triage aid: keep going and list every distinct keyed finding
				st.Probes["COLLECT "+v.Class+" | "+v.Key]++
				return
			}
			if !failedOnce {
				firstFail = idx
			}
			failedOnce = true
			lastV, lastCase = v, rc
			t.Fatalf("%s/%s", v.Property, v.Class)
		}
		if len(st.Samples) < 2 && idx%7 == 1 {
			st.AddSample(c)
		}
	}
	tb := &rtb{name: "ottosim_" + eng.Name()}
	if pf, ok := eng.(interface {
		Preflight(*Stats) (*Violation, interface{})
	}); ok && os.Getenv("VERIF_PREFLIGHT") == "1" {
		if v, rc := pf.Preflight(st); v != nil {
			if kf := isKnown(v); kf != nil {
				st.Known[kf.Property+" "+kf.Key]++
			} else {
				res.Violation, res.Case = v, rc
				st.Freeze()
				return res
			}
		}
	}
	func() {
		defer func() {
			if x := recover(); x != nil {
				if _, ok := x.(tbStop); !ok {
					panic(x)
				}
			}
		}()
		rapid.Check(tb, prop)
	}()
	res.Log = tb.logs
	if tb.failed {
		if lastV == nil {
			fatalf("rapid reported failure without a violation: %v", tb.logs)
		}
		res.Violation = lastV
		res.Case = lastCase
		for _, l := range tb.logs {
			if strings.Contains(l, "flaky test") {
				res.Flaky = true
			}
		}
	}
	st.Freeze()
	return res
}

// ---------------------------------------------------------------------------

func argMap(args []string) map[string]string {
	m := map[string]string{}
	for i := 0; i < len(args); i++ {
		a := args[i]
		if strings.HasPrefix(a, "--") {
			k := a[2:]
			if j := strings.Index(k, "="); j >= 0 {
				m[k[:j]] = k[j+1:]
			} else if i+1 < len(args) && !strings.HasPrefix(args[i+1], "--") {
				m[k] = args[i+1]
				i++
			} else {
				m[k] = "true"
			}
		} else {
			m["_"] = a
		}
	}
	return m
}

func atoi(s string, def int) int {
	if s == "" {
		return def
	}
	n, err := strconv.Atoi(s)
	if err != nil {
		fatalf("bad number %q", s)
	}
	return n
}

func main() {
	testing.Init()
	flag.CommandLine.Parse(nil)
	if len(os.Args) < 2 {
		fatalf("usage: ottosim check|batch|exec|replay|dethash ...")
	}
	loadKnown()
	a := argMap(os.Args[2:])
	switch os.Args[1] {
	case "batch":
		eng := engines[a["engine"]]
		if eng == nil {
			fatalf("unknown engine %q", a["engine"])
		}
		if a["preflight"] != "" {
			os.Setenv("VERIF_PREFLIGHT", "1")
			preflightPart = atoi(a["preflight"], 0)
		}
		if a["warm"] == "true" {
			os.Setenv("VERIF_WARM", "1") // read by Engine.Init
		}
		if a["poolkeep"] == "true" {
			poolKeep = true
		}
		eng.Init()
		stopAfter = atoi(a["stopafter"], 0)
		enumFrom, enumTo = atoi(a["enumfrom"], -1), atoi(a["enumto"], -1)
		collectMode = os.Getenv("VERIF_COLLECT") != ""
		seed, _ := strconv.ParseUint(a["seed"], 10, 64)
		if d := a["deadline"]; d != "" {
			ms, _ := strconv.ParseInt(d, 10, 64)
			batchDeadline = time.UnixMilli(ms)
		}
		res := runBatch(eng, seed, atoi(a["checks"], 20), a["tier"], atoi(a["skip"], 0), a["isolate"] == "true", a["cur"])
		if err := writeJSON(a["out"], res); err != nil {
			fatalf("%v", err)
		}
		if res.Violation != nil {
			os.Exit(1)
		}
	case "exec":
		eng := engines[a["engine"]]
		if eng == nil {
			fatalf("unknown engine %q", a["engine"])
		}
		eng.Init()
		singleCaseProcess = true
		os.Exit(execCaseFile(eng, a["case"], a["out"], false))
	case "replay":
		path := a["_"]
		if path == "" {
			path = a["case"]
		}
		b, err := os.ReadFile(path)
		if err != nil {
			fatalf("%v", err)
		}
		var hdr struct {
			Engine string `json:"engine"`
		}
		json.Unmarshal(b, &hdr)
		eng := engines[hdr.Engine]
		if eng == nil {
			fatalf("replay: unknown engine %q in %s", hdr.Engine, path)
		}
		childBin = a["childbin"]
		c, err := eng.Decode(b)
		if err != nil {
			fatalf("decode %s: %v", path, err)
		}
		// always in a fresh child process: a case may abort the process (race report, fatal stack overflow)
		st := NewStats()
		v, _, valid := isolatedExec(eng, c, st)
		if !valid {
			fmt.Println("case is invalid (reference run does not terminate within the cap)")
			os.Exit(4)
		}
		if v != nil {
			if kf := isKnown(v); kf != nil {
				fmt.Printf("KNOWN-FINDING: property=%s %s (%s)\n", v.Property, kf.Key, v.Detail)
				os.Exit(0)
			}
			fmt.Printf("VIOLATION property=%s replay=%s\n  class=%s\n  %s\n", v.Property, path, v.Class, v.Detail)
			os.Exit(1)
		}
		var bh struct {
			Batch *BatchCtx `json:"batch"`
		}
		json.Unmarshal(b, &bh)
		if bh.Batch != nil {
			// the violation was observed at case #Index of a batch and does not show
			// when the case runs alone: re-run that batch prefix (same seed, same code)
			fmt.Printf("case alone shows no violation; re-running batch prefix seed=%d up to case %d\n", bh.Batch.Seed, bh.Batch.Index)
			dir, _ := os.MkdirTemp("", "ottosim-replay-")
			defer os.RemoveAll(dir)
			out := filepath.Join(dir, "b.json")
			args := []string{"batch", "--engine", hdr.Engine, "--seed", strconv.FormatUint(bh.Batch.Seed, 10), "--checks", strconv.Itoa(bh.Batch.Checks), "--tier", bh.Batch.Tier, "--out", out, "--cur", filepath.Join(dir, "cur.json"), "--stopafter", strconv.Itoa(bh.Batch.Index)}
			if bh.Batch.Warm {
				args = append(args, "--warm")
			}
			bin, _ := os.Executable()
			if childBin != "" {
				bin = childBin
			}
			br, code, stderr := runChild(bin, args, out)
			if br == nil {
				v := crashViolation(eng, code, stderr)
				fmt.Printf("VIOLATION property=%s replay=%s\n  class=%s\n  %s\n", v.Property, path, v.Class, v.Detail)
				os.Exit(1)
			}
			if br.Violation != nil {
				v := br.Violation
				fmt.Printf("VIOLATION property=%s replay=%s\n  class=%s\n  %s\n", v.Property, path, v.Class, v.Detail)
				os.Exit(1)
			}
		}
		fmt.Printf("no violation (runs=%d steps=%d)\n", st.Runs, st.Steps)
	case "dethash":
		eng := engines[a["engine"]]
		eng.Init()
		stopAfter = atoi(a["stopafter"], 0)
		enumFrom, enumTo = atoi(a["enumfrom"], -1), atoi(a["enumto"], -1)
		collectMode = os.Getenv("VERIF_COLLECT") != ""
		seed, _ := strconv.ParseUint(a["seed"], 10, 64)
		eventLogOn = true
		enumFrom, enumTo = atoi(a["enumfrom"], -1), atoi(a["enumto"], -1)
		res := runBatch(eng, seed, atoi(a["checks"], 20), a["tier"], 0, false, "")
		res.Stats.Freeze()
		fmt.Printf("%016x runs=%d steps=%d cases=%d sigs=%d viol=%v\n", eventLogHash, res.Stats.Runs, res.Stats.Steps, res.Stats.Cases, len(res.Stats.SigList), res.Violation != nil)
	case "check":
		os.Exit(checkMain(a))
	default:
		fatalf("unknown command %q", os.Args[1])
	}
}

// event log hash for the determinism self-test: engines feed every event here
var eventLogOn bool
var eventLogHash uint64 = 1469598103934665603

func ev(parts ...interface{}) {
	if !eventLogOn {
		return
	}
	s := fmt.Sprint(parts...)
	for i := 0; i < len(s); i++ {
		eventLogHash ^= uint64(s[i])
		eventLogHash *= 1099511628211
	}
	eventLogHash ^= 0xff
	eventLogHash *= 1099511628211
}

func execCaseFile(eng Engine, path, out string, verbose bool) int {
	b, err := os.ReadFile(path)
	if err != nil {
		fatalf("%v", err)
	}
	c, err := eng.Decode(b)
	if err != nil {
		fatalf("decode %s: %v", path, err)
	}
	st := NewStats()
	v, rc, valid := eng.Exec(c, st)
	st.Freeze()
	res := &BatchResult{Engine: eng.Name(), Stats: st, Violation: v, Case: rc}
	if out != "" {
		if err := writeJSON(out, res); err != nil {
			fatalf("%v", err)
		}
	}
	if !valid {
		if verbose {
			fmt.Println("case is invalid (reference run does not terminate within the cap)")
		}
		return 4
	}
	if v != nil {
		if verbose {
			if kf := isKnown(v); kf != nil {
				fmt.Printf("KNOWN-FINDING: property=%s %s (%s)\n", v.Property, kf.Key, v.Detail)
				return 0
			}
			fmt.Printf("VIOLATION property=%s replay=%s\n  class=%s\n  %s\n", v.Property, path, v.Class, v.Detail)
		}
		return 1
	}
	if verbose {
		fmt.Printf("no violation (runs=%d steps=%d)\n", st.Runs, st.Steps)
	}
	return 0
}

// ---------------------------------------------------------------------------
// parent: fan batches out over processes, merge, write evidence

type checkCfg struct {
	prop, engine, tier, level string
	checksPerBatch             int
	budget                     time.Duration
	minBatches                 int
	rule                       string
	assumptions                []string
	real, simulated            []string
	exhaustive                 bool
}

func checkMain(a map[string]string) int {
	start := time.Now()
	prop := a["prop"]
	tier := a["tier"]
	if tier == "" {
		tier = os.Getenv("VERIF_TIER")
	}
	if tier == "" {
		tier = "quick"
	}
	cfg, ok := checkConfigs[prop]
	if !ok {
		fatalf("no check for property %q", prop)
	}
	cfg.tier = tier
	seed := uint64(1)
	if s := os.Getenv("VERIF_SEED"); s != "" {
		if n, err := strconv.ParseInt(s, 10, 64); err == nil {
			seed = uint64(n)
		} else {
			fatalf("VERIF_SEED=%q is not an integer", s)
		}
	}
	budget := 60 * time.Second
	if tier == "thorough" {
		budget = 30 * time.Minute
	}
	if s := os.Getenv("VERIF_BUDGET_S"); s != "" {
		budget = time.Duration(atoi(s, 60)) * time.Second
	}
	if a["budget"] != "" {
		budget = time.Duration(atoi(a["budget"], 60)) * time.Second
	}
	workers := runtime.NumCPU()
	if s := os.Getenv("VERIF_WORKERS"); s != "" {
		workers = atoi(s, workers)
	}
	fmt.Printf("ottosim check property=%s engine=%s tier=%s VERIF_SEED=%d budget=%s workers=%d\n", prop, cfg.engine, tier, seed, budget, workers)

	scratch, err := os.MkdirTemp("", "ottosim-"+prop+"-")
	if err != nil {
		fatalf("%v", err)
	}
	defer os.RemoveAll(scratch)
	os.Setenv("VERIF_SCRATCH", scratch)
	self, _ := os.Executable()
	if a["childbin"] != "" {
		self = a["childbin"]
		childBin = self
	}

	// generous: a batch that is merely slow on a loaded machine must never be
	// mistaken for a wedged one
	childTimeout = budget + 600*time.Second
	total := NewStats()
	var mu sync.Mutex
	var firstViol *BatchResult
	var violSeed uint64
	nextBatch := 0
	batches := 0
	deadline := start.Add(budget)
	var wg sync.WaitGroup
	harnessErr := ""
	checks := cfg.checksPerBatch
	if tier == "thorough" {
		checks *= 4
	}
	enumTotal := -1
	if en, ok := engines[cfg.engine].(Enumerator); ok {
		engines[cfg.engine].Init()
		enumTotal = len(en.Enumerate(tier))
	}
	for w := 0; w < workers; w++ {
		wg.Add(1)
		go func(w int) {
			defer wg.Done()
			for {
				mu.Lock()
				if firstViol != nil || harnessErr != "" || (enumTotal < 0 && time.Now().After(deadline) && batches >= cfg.minBatches) {
					mu.Unlock()
					return
				}
				if enumTotal >= 0 && nextBatch*checks >= enumTotal {
					mu.Unlock()
					return // the finite space has been handed out completely
				}
				bi := nextBatch
				nextBatch++
				mu.Unlock()
				bseed := mix(seed, uint64(bi)+1) | 1
				out := filepath.Join(scratch, fmt.Sprintf("b%d.json", bi))
				cur := filepath.Join(scratch, fmt.Sprintf("b%d.cur.json", bi))
				args := []string{"batch", "--engine", cfg.engine, "--seed", strconv.FormatUint(bseed, 10), "--checks", strconv.Itoa(checks), "--tier", tier, "--out", out, "--cur", cur, "--deadline", strconv.FormatInt(deadline.UnixMilli(), 10)}
				if bi < preflightParts {
					// the once-per-run enumerations, split over the first batches
					args = append(args, "--preflight", strconv.Itoa(bi))
				}
				if enumTotal >= 0 {
					args = append(args, "--enumfrom", strconv.Itoa(bi*checks), "--enumto", strconv.Itoa((bi+1)*checks))
				}
				if bi%2 == 1 {
					args = append(args, "--warm")
				}
				bin := self
				if a["keepbin"] != "" && bi%6 == 4 {
					// race detector armed, sync.Pool keeps everything that is Put, one P:
					// a pooled object used after Put by one runtime and then by another
					bin = a["keepbin"]
					args = append(args, "--poolkeep")
				} else if a["altbin"] != "" && bi%3 == 2 {
					// every third batch runs without the race detector and with the
					// real sync.Pool: faster, and semantic interference that depends on
					// pooled-object reuse stays reachable
					bin = a["altbin"]
				}
				br, code, stderr := runChild(bin, args, out)
				if br == nil {
					// the child died: attribute to the case it was executing, then minimise in isolation
					eng := engines[cfg.engine]
					v := crashViolation(eng, code, stderr)
					idx := 0
					if b, err := os.ReadFile(cur); err == nil {
						var cf struct {
							Index     int `json:"index"`
							FirstFail int `json:"first_fail"`
						}
						json.Unmarshal(b, &cf)
						idx = cf.Index
						if cf.FirstFail > 0 {
							idx = cf.FirstFail // died while minimising an earlier in-process violation
						}
					}
					if enumTotal >= 0 {
						// enumerated space: the case that killed the child is the replay
						var cm map[string]interface{}
						if b, err := os.ReadFile(cur); err == nil {
							var cf struct {
								Case map[string]interface{} `json:"case"`
							}
							json.Unmarshal(b, &cf)
							cm = cf.Case
						}
						if v.Class == "process_wedged" {
							// a wall-clock verdict: only believed if the case also fails to
							// finish in a process of its own (a loaded machine is not a wedge)
							confirmed := false
							if cb, err := json.Marshal(cm); err == nil && cm != nil {
								if dc, err := eng.Decode(cb); err == nil {
									if v2, _, _ := isolatedExec(eng, dc, NewStats()); v2 != nil {
										v, confirmed = v2, true
									}
								}
							}
							if !confirmed {
								fmt.Printf("NOTE batch %d overran its wall-clock limit but its current case finishes in a process of its own: not a wedge (machine load); batch not counted\n", bi)
								mu.Lock()
								total.Probes["batch_overran_wall_clock_not_reproduced"]++
								mu.Unlock()
								continue
							}
						}
						mu.Lock()
						batches++
						if firstViol == nil {
							firstViol = &BatchResult{Engine: cfg.engine, Stats: NewStats(), Violation: v, Case: cm}
							violSeed = bseed
						}
						mu.Unlock()
						killChildren()
						return
					}
					fmt.Printf("batch %d (seed %d) died at case %d: %s; minimising in isolated children\n", bi, bseed, idx, v.Class)
					args2 := append(append([]string{}, args...), "--isolate", "--skip", strconv.Itoa(idx-1))
					childBin = bin
					br2, code2, stderr2 := runChild(bin, args2, out)
					if br2 == nil {
						mu.Lock()
						harnessErr = fmt.Sprintf("isolated re-run of batch %d died too (exit %d): %s", bi, code2, firstLines(stderr2, 20))
						mu.Unlock()
						return
					}
					if br2.Violation == nil && v.Class == "process_wedged" {
						// a wall-clock verdict that no case reproduces in a process of its
						// own (each with its own time limit): machine load, not a wedge
						fmt.Printf("NOTE batch %d overran its wall-clock limit but every one of its cases finishes in a process of its own: not a wedge (machine load)\n", bi)
						br2.Stats.Probes["batch_overran_wall_clock_not_reproduced"]++
					} else if br2.Violation == nil {
						// not reproduced in isolation: report the original crash with the unminimised case
						br2.Violation = v
						var cm map[string]interface{}
						if b, err := os.ReadFile(cur); err == nil {
							var cf struct {
								Case map[string]interface{} `json:"case"`
							}
							json.Unmarshal(b, &cf)
							cm = cf.Case
						}
						if cm == nil {
							cm = map[string]interface{}{"engine": cfg.engine}
						}
						cm["batch"] = BatchCtx{Seed: bseed, Checks: checks, Tier: tier, Warm: bi%2 == 1, Index: idx}
						br2.Case = cm
						br2.Flaky = true
					}
					br = br2
				}
				mu.Lock()
				batches++
				if bin == a["keepbin"] && bin != "" {
					br.Stats.Probes["batches_with_race_detector_and_keeping_pool"]++
				} else if bin != self {
					br.Stats.Probes["batches_without_race_detector"]++
				} else if a["altbin"] != "" {
					br.Stats.Probes["batches_with_race_detector"]++
				}
				total.Merge(br.Stats)
				if br.Violation != nil && firstViol == nil {
					firstViol = br
					violSeed = bseed
					mu.Unlock()
					killChildren()
					return
				}
				mu.Unlock()
			}
		}(w)
	}
	wg.Wait()
	wall := time.Since(start).Seconds()
	if harnessErr != "" {
		fmt.Fprintf(os.Stderr, "ottosim: harness failure: %s\n", harnessErr)
		return 3
	}

	nviol := 0
	replayPath := ""
	if firstViol != nil {
		nviol = 1
		os.MkdirAll(filepath.Join(verifDir(), "replays"), 0o755)
		replayPath = filepath.Join(verifDir(), "replays", fmt.Sprintf("%s_%s_seed%d.json", prop, firstViol.Violation.Class, violSeed))
		writeJSON(replayPath, firstViol.Case)
	}
	writeEvidence(cfg, seed, total, batches, wall, nviol)

	keys := make([]string, 0, len(total.Known))
	for k := range total.Known {
		keys = append(keys, k)
	}
	sort.Strings(keys)
	for _, k := range keys {
		parts := strings.SplitN(k, " ", 2)
		fmt.Printf("KNOWN-FINDING: property=%s %s (seen %d times)\n", parts[0], parts[1], total.Known[k])
	}
	fmt.Printf("batches=%d cases=%d runs=%d steps=%d nontrivial=%d distinct_signatures=%d wall=%.1fs\n", batches, total.Cases, total.Runs, total.Steps, total.NonTrivial, len(total.Sigs), wall)
	if firstViol != nil {
		v := firstViol.Violation
		fmt.Printf("VIOLATION property=%s replay=%s\n  class=%s flaky=%v\n  %s\n", v.Property, replayPath, v.Class, firstViol.Flaky, v.Detail)
		return 1
	}
	fmt.Printf("OK property=%s held on everything explored\n", prop)
	return 0
}

var childTimeout time.Duration

// tier and PRNG value of the batch being run (read by Preflight implementations)
var (
	curTier      string
	curBatchSeed uint64
	// which part of the once-per-run enumerations this batch performs
	preflightPart int
)

const preflightParts = 3

var (
	childMu   sync.Mutex
	children  = map[*exec.Cmd]bool{}
	cancelled bool
)

func killChildren() {
	childMu.Lock()
	defer childMu.Unlock()
	cancelled = true
	for c := range children {
		if c.Process != nil {
			c.Process.Kill()
		}
	}
}

func runChild(self string, args []string, out string) (*BatchResult, int, string) {
	os.Remove(out)
	cmd := exec.Command(self, args...)
	var stderr bytes.Buffer
	cmd.Stderr = &stderr
	cmd.Env = os.Environ()
	childMu.Lock()
	if cancelled {
		childMu.Unlock()
		return &BatchResult{Stats: NewStats()}, 0, ""
	}
	err := cmd.Start()
	if err != nil {
		childMu.Unlock()
		fatalf("spawn: %v", err)
	}
	children[cmd] = true
	childMu.Unlock()
	timedOut := false
	var timer *time.Timer
	if childTimeout > 0 {
		timer = time.AfterFunc(childTimeout, func() {
			childMu.Lock()
			timedOut = true
			childMu.Unlock()
			cmd.Process.Kill()
		})
	}
	err = cmd.Wait()
	if timer != nil {
		timer.Stop()
	}
	childMu.Lock()
	to := timedOut
	childMu.Unlock()
	if to {
		childMu.Lock()
		delete(children, cmd)
		childMu.Unlock()
		os.Remove(out)
		return nil, 124, "fatal error: batch child wedged: it did not finish within " + childTimeout.String() + " (killed by the parent)"
	}
	childMu.Lock()
	delete(children, cmd)
	wasCancelled := cancelled
	childMu.Unlock()
	if wasCancelled {
		return &BatchResult{Stats: NewStats()}, 0, ""
	}
	code := 0
	if err != nil {
		if ee, ok := err.(*exec.ExitError); ok {
			code = ee.ExitCode()
		} else {
			fatalf("spawn: %v", err)
		}
	}
	if code == 3 {
		fatalf("child reported harness failure: %s", stderr.String())
	}
	b, err := os.ReadFile(out)
	if err != nil {
		return nil, code, stderr.String()
	}
	var br BatchResult
	if err := json.Unmarshal(b, &br); err != nil {
		fatalf("child result: %v", err)
	}
	br.Stats.Sigs = map[uint64]bool{}
	return &br, code, stderr.String()
}

func writeEvidence(cfg checkCfg, seed uint64, st *Stats, batches int, wall float64, nviol int) {
	st.Freeze()
	cov := map[string]interface{}{
		"evaluations":         st.Runs,
		"distinct_nontrivial": len(st.SigList),
		"rule":                cfg.rule,
		"samples":             st.Samples,
		"cases_generated":     st.Cases,
		"invalid_cases":       st.Invalid,
		"batches":             batches,
		"prng_values_used":    batches,
		"prng_values_per_hour": int64(float64(batches) / wall * 3600),
		"prng_derivation":     "batch i uses splitmix(VERIF_SEED, i); every choice of a batch (generated cases, schedules, fault points, reader chunking, simulated clock) derives from that one value",
		"nontrivial_runs":     st.NonTrivial,
		"steps":               st.Steps,
		"sim_time_s":          float64(st.SimTimeNs) / 1e9,
		"runs_per_hour":       int64(float64(st.Runs) / wall * 3600),
		"cases_per_hour":      int64(float64(st.Cases) / wall * 3600),
		"faults_fired":        st.Faults,
		"probes":              st.Probes,
		"known_findings_seen": st.Known,
		"programs_swept_at_every_step": st.Exhaustive,
		"real_components":      cfg.real,
		"simulated_components": cfg.simulated,
		"exhaustive":           cfg.exhaustive,
	}
	if len(st.Samples) == 0 {
		cov["samples"] = []interface{}{"(no case completed)"}
	}
	e := map[string]interface{}{
		"property_id": cfg.prop,
		"tier":        cfg.tier,
		"seed":        int64(seed),
		"level":       cfg.level,
		"coverage":    cov,
		"assumptions": cfg.assumptions,
		"wall_s":      wall,
		"violations":  nviol,
	}
	os.MkdirAll(filepath.Join(verifDir(), "evidence"), 0o755)
	if err := writeJSON(filepath.Join(verifDir(), "evidence", cfg.prop+".json"), e); err != nil {
		fatalf("evidence: %v", err)
	}
}

var checkConfigs = map[string]checkCfg{
	"C02": {
		prop: "C02", engine: "faultsweep", level: "fault_enumeration", checksPerBatch: 1, minBatches: 1, exhaustive: true,
		rule: "the grid (built-in function discovered on a fresh global object, call or construct) x (one varying position among receiver / argument 1 / argument 2) x 100 value kinds (numeric extremes, hostile strings, wrappers, frozen/sealed/non-extensible/sparse/prototype-less objects, array-likes whose length is Infinity, NaN, fractional or a string, arguments, bound functions, regexps with a negative lastIndex or one beyond the subject, Go-backed slices/maps/structs/arrays/functions, trap objects and trap functions whose valueOf/toString/toJSON/getters/body count invocations) x faults {none, throw at the 1st/2nd/3rd trap invocation, host-function panic, interrupt panic at the 1st/2nd trap invocation, stack depth limit 3..6} is enumerated completely (quick adds all kind pairs for a seed-selected sixteenth of the surface, thorough for all of it), plus: every own/inherited property of an instance of each kind read/described/written/deleted (also through an inheriting object); every operator form on each kind; uncaught throws and the Value/Object accessors on a value of each kind under every fault; all 3-step histories over 20 array/object operations; all 729 property-descriptor shapes applied to a property in each of the descriptor holders (state classes and exotic / Go-backed holders) and then observed from script, through the Go accessors and on a Copy(); all two-step histories of 11 operations x 9 keys on an arguments object for every declared/passed/strict shape; the Go API on hostile runtime states and host functions entered at rest; token-truncated special strings through every built-in; self-recursive programs under limits 2..200; JSON graphs cyclic only through a substituted value, 11 nesting kinds at 5000 levels, and allocation / unaccounted-recursion / deep-nesting probes (known findings) in memory-capped child processes; evaluations = cells executed. distinct_nontrivial = number of grid slices executed completely.",
		assumptions: []string{
			"claimed slice only: fault containment on a finite grid of value kinds, states and histories; totality on arbitrary source text and on values outside these kinds is outside deterministic simulation",
			"nothing is asserted about which value or error comes back, only that the API call returns, that only injected panics escape, and that the runtime is at rest and usable afterwards",
		},
		real:      []string{"otto evaluator and every built-in, catchPanic, Interrupt polling, stack-depth guard"},
		simulated: []string{"trap callbacks with fault counters", "host functions hpanic/hirq", "seeded random source"},
	},
	"C04": {
		prop: "C04", engine: "readerfault", level: "fault_enumeration", checksPerBatch: 6, minBatches: 16,
		rule: "cases = generated program texts (workload generator, syntax zoo, interpreter fragments; <= 1500 bytes); for each text EVERY cut point n in [0,len] is delivered as a truncated stream through a simulated reader (1-byte / small / large / whole chunks, rune splits, (0,nil) reads, (n,EOF)) to parser.ParseFile and compared with parsing the same prefix as a string; run/compile/eval-level checks at statement boundaries and a sample of cuts; read errors after n bytes for every 4th n; whole-text chunkings through reader, []byte and *bytes.Buffer; the same prefix as a later file of a FileSet; a third of the texts carry a construct that is invalid by construction and must be rejected by every route, and once per run the whole corpus of invalid constructs (alone, embedded, as a suffix) and the whole syntax zoo (every item must be accepted, alone and embedded) are enumerated; every accepted tree is checked for spans, ast.Walk and the absence of Bad* placeholder nodes. evaluations = simulated deliveries. distinct_nontrivial = distinct (accepted tree hash | rejection message) outcomes over cut points strictly inside a text.",
		assumptions: []string{
			"claimed slice only: truncations of generated programs, any delivery of the bytes, read errors; 'arbitrary junk is rejected per the ES5 grammar' needs a grammar oracle and is outside deterministic simulation",
			"oracles are differential against otto's own string route (no model of the grammar)",
		},
		real:      []string{"otto parser, lexer, ReadSource, Run/Compile/Eval entry points, ast.Walk, node span methods"},
		simulated: []string{"the io.Reader (chunking, short/zero reads, errors, early EOF)"},
	},
	"C17": {
		prop: "C17", engine: "copysim", level: "exploration", checksPerBatch: 10, minBatches: 16,
		rule: "cases = histories of up to 10 operations {run program (heap builders x observers x mutators), Copy(node), Copy(node) taken mid-run from inside an interrupt function (its twin is halted by a panicking interrupt at the same poll), generic mutation of the n-th reachable object, program aborted at step k, simultaneous programs on several nodes under the step scheduler} over a tree of up to 6 runtimes, plus once per run: a mid-run Copy at every poll (quick: every third) of two programs that pass through eval / Function / with / catch / getter / native-callback contexts, and every heap builder copied and then written through by the type-directed mutator on copy and original; after every operation every node's full heap dump (all objects reachable from the global object and intrinsics: class, extensibility, prototype link, property order, full descriptors, function source, primitive/date values; identity by discovery order) must equal the dump of its replay twin (a fresh runtime on which the node's lineage was re-executed), and every program must return the same result and host-call trace on node and twin; evaluations counts histories. distinct_nontrivial = distinct operation-kind sequences of histories that contain at least one Copy followed by a mutation or observation.",
		assumptions: []string{
			"the dumper observes only what scripts can observe; closures' captured variables are observed through registered peek functions, not structurally",
			"Copy() is taken between top-level API calls (source at rest), including right after aborted programs; Copy() from inside a host function is not simulated",
			"sampling, not proof",
		},
		real:      []string{"otto evaluator, built-ins, cloner (Copy), real goroutines in interleave operations"},
		simulated: []string{"which runtime runs at each step (interleave)", "abort point of a program", "host functions (__vid/rec/emit)"},
	},
	"C20": {
		prop: "C20", engine: "multisim", level: "exploration", checksPerBatch: 40, minBatches: 16,
		rule: "cases = (template program, 1-3 shared Scripts/Programs, 2-5 tasks of mixed provenance {fresh, copy, copy of copy, live copy} each with 1-3 programs submitted by route {text, reader, shared Script, shared ast.Program, self-compiled}), run once interleaved at evaluation-step granularity under a seeded scheduler (uniform / burst / PCT priorities / serial) on real goroutines - three build flavours by batch: race detector with a sync.Pool that never reuses (3 of 6), plain build with the real Pool (2 of 6), race detector with a Pool that keeps everything that is Put and one P (1 of 6) - then each task alone; evaluations counts runs (1 interleaved + N solo per case). distinct_nontrivial = number of distinct schedule hashes (sequence of context switches) among interleaved runs with at least 2 switches while at least 2 runtimes were mid-program.",
		assumptions: []string{
			"the step handoff is invisible to the race detector (plain words in //go:norace functions): amd64 TSO and the Go compiler not moving memory operations across an opaque call are trusted",
			"context switches happen only at evaluation steps; Go-only built-ins and Copy() are atomic in simulated time (the race detector still sees conflicting accesses across them)",
			"the race detector keeps a bounded access history per word; sampling, not proof",
		},
		real:      []string{"otto parser, compiler, evaluator, built-ins, cloner (Copy), Script/Program sharing, Go race detector, real goroutines"},
		simulated: []string{"which goroutine runs at each evaluation step", "random source (seeded per runtime)", "host functions (emit/rec/nid/...)", "wall clock kept out of workloads"},
	},
	"C18": {
		prop: "C18", engine: "stepsim", level: "fault_enumeration", checksPerBatch: 6, minBatches: 16,
		rule: "cases = generated programs x (stack limit, channel capacity, host-function fault schedule); each case is run fault-free (with and without a channel) and then, in exhaustive mode, once per (step k in [0,n0]) x {noop, panic(error), panic(string)} interrupt, or in seeded mode under a drawn schedule of up to 4 interrupts/watchdogs of 8 kinds (among them one that tightens the stack limit), plus a host-function panic at every host call of small programs; functions queued on the channel before the script starts are part of the schedules; the first batches also enumerate the (23 recursion forms x limits 2..14) grid, the (forms x depth at which a host function tightens the limit x limit) grid, the copy grid and every never-ending construct x entry route x channel kind under a panicking watchdog; after every exit: a try/catch script, the catch-parameter probe, an endless loop under a fresh watchdog, a `debugger;` script when a handler is installed, the continuation program, store read-back (journal, conserved sort stores) and the depth probes; evaluations counts simulated runs. distinct_nontrivial = number of distinct unwinding signatures (collapsed interpreter Go call stack at the moment the interrupt function was invoked x interrupt kind), counted only for interrupts actually delivered while the script was running.",
		assumptions: []string{
			"interrupts can only be observed at evaluation steps (hook granularity); built-ins written in Go are atomic between their callbacks, which is also the only place otto polls",
			"the hook sends on the real channel from the interpreter goroutine; the channel, the poll, panic propagation and unwinding are unmodified otto code",
			"sampling, not proof; exhaustive only per program over steps",
		},
		real:      []string{"otto parser, compiler, evaluator, built-ins, catchPanic/tryCatchEvaluate, Interrupt channel and polls, stack-depth guard"},
		simulated: []string{"watchdog timers and clock (mapped to step indices)", "which step a function is sent at", "host functions (emit/nid/hf/hcall/...)", "random source unused"},
	},
}
