package main

import (
	"fmt"
	"os"
	"strconv"
	"strings"

	"github.com/robertkrimen/otto"
)

// faultsweep, part 2: finite state x operation grids whose states no single
// built-in call creates (C02).
//
//   descsweep   every property descriptor shape (value/get/set present, absent
//               or explicitly undefined; the three attributes true, false or
//               absent: 729 descriptors) applied to a property in every state
//               class (missing, data, accessor, configurable or not, inherited,
//               exotic holders), followed by every way of observing the
//               property, from script and through the Go API, including Copy();
//   argsweep    every two-step history of operations on an arguments object,
//               for every combination of declared and passed parameter counts;
//   cycleprobe  JSON.stringify on object graphs whose cycle only exists through
//               the value a replacer / toJSON substitutes (child process: the
//               failure mode is a fatal Go stack overflow).
//
// Every script step is its own Run, without a script try/catch on the path, so
// that a Go panic cannot be converted into a script exception and masked.

// sweepStep runs one source text and, when asked, the Value accessors on the
// result; it returns a description of what panicked.
func sweepStep(r *fsRuntime, src string, accessors bool, st *Stats, fault string) (bad string, panicked bool) {
	st.Runs++
	st.Fault(fault)
	val, err, p, pv := protectedRun(r.vm, src)
	if p {
		return fmt.Sprintf("Run panicked with %T: %v", pv, clip(fmt.Sprint(pv))), true
	}
	if d := r.vm.VerifScopeDepth(); d != 0 {
		return fmt.Sprintf("scope depth %d after Run returned", d), true
	}
	if err == nil && accessors {
		return valueAccessors(r.vm, val), false
	}
	return "", false
}

// sweepReport turns a failed step into a violation (or a known finding).
func sweepReport(st *Stats, key, hist, bad string) *Violation {
	x := viol("C02", "go_panic_escaped", "%s: %s", hist, bad)
	x.Key = key
	if kf := isKnown(x); kf != nil {
		st.Known[kf.Property+" "+kf.Key]++
		return nil
	}
	if collectMode {
		st.Probes["COLLECT "+x.Class+" | "+x.Key+" | "+clip(x.Detail)]++
		return nil
	}
	return x
}

// ---------------------------------------------------------------------------
// descsweep

type descHolder struct {
	setup string // statements leaving the holder in o
	name  string // the property
	fresh bool   // the holder is shared runtime state: one runtime per descriptor
}

var descHolders = []descHolder{
	{"var o={};", "x", false},
	{"var o={x:1};", "x", false},
	{"var o={get x(){return 1},set x(v){}};", "x", false},
	{"var o={};Object.defineProperty(o,'x',{value:1});", "x", false},
	{"var o={};Object.defineProperty(o,'x',{get:function(){return 1}});", "x", false},
	{"var o={};Object.defineProperty(o,'x',{value:1,writable:true});", "x", false},
	{"var o={};Object.defineProperty(o,'x',{set:function(v){},configurable:true});", "x", false},
	{"var o=[1,2];", "0", false},
	{"var o=[1,2];", "length", false},
	{"var o=[1,2];", "5", false},
	{"var o=function(a){};", "prototype", false},
	{"var o=function(a){};", "length", false},
	{"var o=(function(a){return arguments})(1);", "0", false},
	{"var o=(function(a){'use strict';return arguments})(1);", "callee", false},
	{"gx=1;var o=this;", "gx", true},
	{"var o=new String('ab');", "0", false},
	{"var o=new String('ab');", "length", false},
	{"var o=/a/;", "lastIndex", false},
	{"var o=Object.preventExtensions({x:1});", "x", false},
	{"var o=Object.preventExtensions({});", "x", false},
	{"var o=Object.create({x:1});", "x", false},
	{"var o=Object.create(Object.defineProperty({},'x',{set:function(v){}}));", "x", false},
	{"var o=new Error('m');", "message", false},
	{"var o=function(){}.bind(null);", "length", false},
	{"var o=new Date(0);", "x", false},
	{"var o=Math;", "PI", true},
	{"var o=Object.prototype;", "toString", true},
	{"var o=Array.prototype;", "length", true},
	{"var o=Object.freeze({x:1});", "x", false},
	{"var o={};Object.defineProperty(o,'x',{get:undefined,set:undefined,configurable:true});", "x", false},
	{"var o={};Object.defineProperty(o,'x',{get:undefined,configurable:true,enumerable:true});", "x", false},
	{"var o={};Object.defineProperty(o,'x',{set:undefined});", "x", false},
	{"var o={x:1};Object.defineProperty(o,'x',{get:undefined,set:undefined});", "x", false},
	{"var o=[1,2];Object.defineProperty(o,'0',{get:undefined,set:undefined});", "0", false},
	{"var o=hgo('go_slice');", "0", false},
	{"var o=hgo('go_slice');", "length", false},
	{"var o=hgo('go_slice');", "7", false},
	{"var o=hgo('go_map');", "a", false},
	{"var o=hgo('go_map');", "zz", false},
	{"var o=hgo('go_struct');", "X", false},
	{"var o=hgo('go_ptr_struct');", "Y", false},
	{"var o=hgo('go_ptr_struct');", "nosuch", false},
	{"var o=hgo('go_array');", "1", false},
	{"var o=hgo('go_array');", "length", false},
	{"var o=hgo('go_func');", "length", false},
	{"var o=hgo('go_map_named_key');", "a", false},
	{"var o=hgo('go_map_named_key');", "zz", false},
	{"var o=hgo('go_map_iface_key');", "a", false},
	{"var o=hgo('go_map_nan_key');", "NaN", false},
	{"var o=hgo('go_nil_embedded');", "X", false},
	{"var o=hgo('go_ptr_array');", "0", false},
	{"var o=hgo('go_ptr_array');", "9", false},
	{"var o=hgo('go_ptr_array_iface');", "1", false},
	{"var o=hgo('go_map_int');", "1", false},
	{"var o=Object.seal({get x(){return 1}});", "x", false},
}

var descFieldVals = [][]string{
	{"", "value:1", "value:undefined"},
	{"", "get:undefined", "get:function(){return 2}"},
	{"", "set:undefined", "set:function(v){}"},
	{"", "writable:true", "writable:false"},
	{"", "enumerable:true", "enumerable:false"},
	{"", "configurable:true", "configurable:false"},
}

func descText(i int) string {
	var parts []string
	for _, f := range descFieldVals {
		if s := f[i%3]; s != "" {
			parts = append(parts, s)
		}
		i /= 3
	}
	return "{" + strings.Join(parts, ",") + "}"
}

const descCount = 729

func descObservations(name string) []string {
	n := strconv.Quote(name)
	return []string{
		"(function(){var d=Object.getOwnPropertyDescriptor(__o," + n + ");if(!d)return d;return [typeof d.get,String(d.get),d.get&&d.get.name,d.get&&d.get.length,typeof d.set,String(d.set),d.set&&d.set.name,String(d.value),d.writable,d.enumerable,d.configurable].join()})()",
		"__o[" + n + "]",
		"__o[" + n + "]=5",
		"Object.keys(__o).join()+Object.getOwnPropertyNames(__o).join()",
		"(function(){var s='';for(var k in __o)s+=k;return s})()",
		"JSON.stringify(__o)",
		"Object.prototype.propertyIsEnumerable.call(__o," + n + ")",
		"Object.isFrozen(__o)+Object.isSealed(__o)",
		"(function(){var d=Object.getOwnPropertyDescriptor(__o," + n + ");return d&&Object.defineProperty({}," + n + ",d)})()",
		"delete __o[" + n + "]",
	}
}

func execDescSweep(c *FSCase, st *Stats) (*Violation, interface{}, bool) {
	h := descHolders[c.From]
	obs := descObservations(h.name)
	var r *fsRuntime
	seed, _ := strconv.Atoi(os.Getenv("VERIF_SEED"))
	for di := 0; di < descCount; di++ {
		desc := descText(di)
		routes := []string{
			"Object.defineProperty(__o," + strconv.Quote(h.name) + "," + desc + ")",
			"Object.defineProperties(__o,{" + strconv.Quote(h.name) + ":" + desc + "})",
		}
		route := routes[(di+seed)%2]
		if c.Pairs {
			route = routes[0] + ";" + routes[1]
		}
		if r == nil || h.fresh {
			r = newFSRuntime()
		}
		hist := "`" + h.setup + "` then `" + route + "`"
		key := "desc " + strconv.Itoa(c.From) + " " + desc
		step := func(src string, acc bool) *Violation {
			bad, panicked := sweepStep(r, src, acc, st, "descriptor_history")
			if panicked {
				r = newFSRuntime()
			}
			if bad != "" {
				return sweepReport(st, key, hist+" then `"+src+"`", bad)
			}
			return nil
		}
		fail := func(v *Violation) (*Violation, interface{}, bool) {
			return v, &FSCase{Engine: "faultsweep", Fault: "descsweep", From: c.From, K: di + 1, Pairs: c.Pairs}, true
		}
		if c.K != 0 && c.K != di+1 {
			continue // replay of one descriptor
		}
		if v := step("__o=(function(){"+h.setup+"return o})()", false); v != nil {
			return fail(v)
		}
		if v := step(route, false); v != nil {
			return fail(v)
		}
		// Copy() of the runtime in this state, and the property seen from the copy
		st.Runs++
		st.Fault("copy_in_state")
		if v := func() (v *Violation) {
			defer func() {
				if x := recover(); x != nil {
					v = sweepReport(st, key, hist+" then Otto.Copy()", fmt.Sprintf("Copy panicked with %T: %v", x, clip(fmt.Sprint(x))))
				}
			}()
			cp := r.vm.Copy()
			cr := &fsRuntime{vm: cp}
			for _, o := range obs[:3] {
				if bad, _ := sweepStep(cr, o, false, st, "descriptor_history"); bad != "" {
					if v := sweepReport(st, key, hist+" then Copy() then `"+o+"` on the copy", bad); v != nil {
						return v
					}
				}
			}
			return nil
		}(); v != nil {
			return fail(v)
		}
		for oi, o := range obs {
			if v := step(o, oi == 0 || oi == 1); v != nil {
				return fail(v)
			}
		}
		if v := step("__o", true); v != nil {
			return fail(v)
		}
	}
	st.NonTrivial++
	st.Sig(hashStr("desc", h.setup, h.name))
	return nil, nil, true
}

// ---------------------------------------------------------------------------
// argsweep

var argOps = []string{
	"delete arguments[K]",
	"arguments[K]=9",
	"arguments[K]",
	"Object.defineProperty(arguments,K,{value:8})",
	"Object.defineProperty(arguments,K,{get:function(){return 6},configurable:true})",
	"Object.defineProperty(arguments,K,{writable:false})",
	"Object.getOwnPropertyDescriptor(arguments,K)",
	"arguments.hasOwnProperty(K)",
	"K in arguments",
	"Object.freeze(arguments)",
	"arguments.length=K",
}

var argKeys = []string{"0", "1", "2", "5", "'x'", "'length'", "'callee'", "4294967295", "-1"}

func execArgSweep(c *FSCase, st *Stats) (*Violation, interface{}, bool) {
	r := newFSRuntime()
	op1 := argOps[c.From]
	for _, k1 := range argKeys {
		first := strings.ReplaceAll(op1, "K", k1)
		for j := -1; j < len(argOps); j++ {
			for _, k2 := range argKeys {
				second := ""
				if j >= 0 {
					second = strings.ReplaceAll(argOps[j], "K", k2) + ";"
				} else if k2 != argKeys[0] {
					continue
				}
				for _, params := range []string{"", "a", "a,b"} {
					for _, strict := range []string{"", "'use strict';"} {
						for passed := 0; passed <= 3; passed++ {
							if j >= 0 && !c.Pairs && (passed == 3 || (strict != "" && params == "")) {
								continue // quick tier: a reduced shape grid for two-step histories
							}
							tail := "return [arguments[0],arguments[1],arguments.length,(arguments.length>=0&&arguments.length<100?Array.prototype.slice.call(arguments).join():'')].join()"
							if params != "" {
								tail = "a=7;" + tail
							}
							if j < 0 {
								tail = "return arguments"
								if params != "" {
									tail = "a=7;" + tail
								}
							}
							src := "(function(" + params + "){" + strict + first + ";" + second + tail + "})(" + strings.Join([]string{"1", "2", "3"}[:passed], ",") + ")"
							bad, panicked := sweepStep(r, src, j < 0, st, "arguments_history")
							if panicked {
								r = newFSRuntime()
							}
							if bad != "" {
								if v := sweepReport(st, "args "+src, "`"+src+"`", bad); v != nil {
									return v, &FSCase{Engine: "faultsweep", Prog: src, Fault: "prop"}, true
								}
							}
						}
					}
				}
			}
		}
	}
	st.NonTrivial++
	st.Sig(hashStr("args", op1))
	return nil, nil, true
}

// ---------------------------------------------------------------------------
// cycleprobe

// object graphs that are cyclic only through a substituted value; ES5 15.12.3
// requires a TypeError; an implementation that misses the cycle recurses in Go
// code without entering a script scope per level, so no depth limit stops it
var cycleProgs = []string{
	"var a={x:1};JSON.stringify(a,function(k,v){return k==='x'?a:v})",
	"var b={};b.x={toJSON:function(){return b}};JSON.stringify(b)",
	"var a=[1];JSON.stringify(a,function(k,v){return k==='0'?a:v})",
	"var a={x:{y:1}};JSON.stringify(a,function(k,v){return k==='y'?a.x:v})",
	"var a={x:{y:1}};JSON.stringify(a,function(k,v){return k==='y'?a:v})",
	"var a={};a.x={toJSON:function(){return a}};JSON.stringify([a])",
	"var a={};a.x={toJSON:function(){return a}};JSON.stringify({q:[0,a]},null,2)",
	"var o={};var d=new Date(0);d.toJSON=function(){return o};o.d=d;JSON.stringify(o)",
	"var a=[];a[0]={toJSON:function(){return a}};JSON.stringify(a,function(k,v){return v})",
	"var a={x:1};JSON.stringify(a,function(k,v){return k===''?v:this})",
	"var a={x:1};JSON.stringify({w:a},function(k,v){return typeof v==='number'?[a]:v})",
	"var a=[];a[0]=a;JSON.stringify(a)",
	"var a={};a.a=a;JSON.stringify(a,['a'])",
	"var a={};a.b={c:{d:a}};JSON.stringify(a,null,'  ')",
	"var a={n:new Number(1)};a.n.toJSON=function(){return a};JSON.stringify(a)",
	"var s=new String('q');s.toJSON=function(){return h};var h={s:s};JSON.stringify(h)",
	"JSON.parse('{\"a\":{\"b\":1}}',function(k,v){if(k==='b'){this.c=this}return v})",
	"JSON.parse('[[1]]',function(k,v){if(k==='0'&&typeof v==='number'){this[1]=this}return v})",
}

func execCycleProbe(c *FSCase, st *Stats) (*Violation, interface{}, bool) {
	if !singleCaseProcess {
		os.Setenv("VERIF_RLIMIT_MB", "3000")
		os.Setenv("VERIF_CHILD_TIMEOUT_S", "30")
		v, rc, ok := isolatedExec(fsEngine{}, c, st)
		os.Unsetenv("VERIF_RLIMIT_MB")
		os.Unsetenv("VERIF_CHILD_TIMEOUT_S")
		if v != nil {
			v.Key = "cycle " + c.Prog
			if kf := isKnown(v); kf != nil {
				st.Known[kf.Property+" "+kf.Key]++
				return nil, nil, true
			}
		}
		return v, rc, ok
	}
	applyRlimit()
	st.Fault("substituted_cycle")
	st.NonTrivial++
	st.Sig(hashStr("cycle", c.Prog))
	for _, limit := range []int{64, 250} { // always with a limit: without one a cyclic result legitimately recurses without bound in join/String
		r := newFSRuntime()
		r.vm.SetStackDepthLimit(limit)
		bad, _ := sweepStep(r, c.Prog, true, st, "substituted_cycle")
		if bad != "" {
			x := viol("C02", "go_panic_escaped", "`%s` under SetStackDepthLimit(%d): %s", c.Prog, limit, bad)
			x.Key = "cycle " + c.Prog
			return x, c, true
		}
		fv, ferr, fp, fpv := protectedRun(r.vm, "(function(a){return a+1})(1)")
		if fp || ferr != nil || valStr(fv) != "2" {
			x := viol("C02", "runtime_unusable_afterwards", "`%s`: follow-up script gave value=%s err=%v panic=%v", c.Prog, valStr(fv), ferr, fpv)
			x.Key = "cycle " + c.Prog
			return x, c, true
		}
	}
	return nil, nil, true
}

// ---------------------------------------------------------------------------
// nestprobe: source texts that nest (or chain) n levels deep. The parser is
// recursive descent and the evaluator walks the tree recursively, neither
// counts towards SetStackDepthLimit, so a large enough n exhausts the Go stack:
// a fatal error no recover() can stop. Run in a child process.

var nestKinds = []string{"paren", "array", "block", "unary", "fn", "plus", "member", "call", "object", "ternary", "if"}

// kinds whose 4,000,000-level form stays within a few GB of memory and a few
// seconds (a member chain of that length is quadratic in ast.DotExpression.Idx0:
// hours; object/call/ternary/if nesting needs tens of GB): those are tried at
// the survivable depth only
var nestDeadly = []string{"paren", "array", "block", "unary", "fn", "plus"}

func nestSource(kind string, n int) string {
	switch kind {
	case "paren":
		return strings.Repeat("(", n) + "1" + strings.Repeat(")", n)
	case "array":
		return strings.Repeat("[", n) + strings.Repeat("]", n)
	case "block":
		return strings.Repeat("{", n) + strings.Repeat("}", n)
	case "unary":
		return "x=" + strings.Repeat("!", n) + "1"
	case "fn":
		return strings.Repeat("function f(){", n) + strings.Repeat("}", n)
	case "plus":
		return "x=1" + strings.Repeat("+1", n)
	case "member":
		return "var o={};o.a=o;x=o" + strings.Repeat(".a", n)
	case "call":
		return "function g(){return g};x=g" + strings.Repeat("()", n)
	case "object":
		return "x=" + strings.Repeat("{a:", n) + "1" + strings.Repeat("}", n)
	case "ternary":
		return "x=" + strings.Repeat("1?", n) + "2" + strings.Repeat(":3", n)
	case "if":
		return strings.Repeat("if(0)", n) + ";"
	}
	return ""
}

func execNestProbe(c *FSCase, st *Stats) (*Violation, interface{}, bool) {
	key := "deep-nesting " + c.Recv + " " + strconv.Itoa(c.K)
	if !singleCaseProcess {
		os.Setenv("VERIF_RLIMIT_MB", "6000")
		os.Setenv("VERIF_CHILD_TIMEOUT_S", "120")
		v, rc, ok := isolatedExec(fsEngine{}, c, st)
		os.Unsetenv("VERIF_RLIMIT_MB")
		os.Unsetenv("VERIF_CHILD_TIMEOUT_S")
		if v != nil {
			v.Key = key
			if v.Class == "process_crash" || v.Class == "go_stack_exhausted" {
				v.Class = "process_killed_by_deep_nesting"
			}
			if kf := isKnown(v); kf != nil {
				st.Known[kf.Property+" "+kf.Key]++
				return nil, nil, true
			}
		}
		return v, rc, ok
	}
	applyRlimit()
	st.Fault("deeply_nested_source")
	st.NonTrivial++
	st.Sig(hashStr("nest", c.Recv, strconv.Itoa(c.K)))
	src := nestSource(c.Recv, c.K)
	r := newFSRuntime()
	r.vm.SetStackDepthLimit(100)
	st.Runs++
	_, _, panicked, pv := protectedRun(r.vm, src)
	if panicked {
		x := viol("C02", "go_panic_escaped", "%s nested %d deep (%d bytes of source): Run panicked with %T: %v", c.Recv, c.K, len(src), pv, clip(fmt.Sprint(pv)))
		x.Key = key
		return x, c, true
	}
	fv, ferr, fp, fpv := protectedRun(r.vm, "(function(a){return a+1})(1)")
	if fp || ferr != nil || valStr(fv) != "2" {
		x := viol("C02", "runtime_unusable_afterwards", "%s nested %d deep: follow-up script gave value=%s err=%v panic=%v", c.Recv, c.K, valStr(fv), ferr, fpv)
		x.Key = key
		return x, c, true
	}
	return nil, nil, true
}

// bridgeProgs: script callbacks driven by reflection-bridged Go functions, ending
// in every way a function can end, with and without a script try around the call.
func bridgeProgs() []string {
	ends := []string{"return hgo('go_func_named_int')(3)", "return hgo('go_func_named_map')({a:1})", "return hgo('go_func_named_int')('x')", "return hgo('go_variadic')(1,'a','b')", "return hgo('go_func_err')(1)", "return hgo('go_named_float32')+1", "return x", "throw 'boom'", "throw 7", "throw undefined", "throw null", "throw {a:1}", "throw new TypeError('t')", "throw __mk('trap')",
		"return {}", "return 'str'", "return undefined", "return 1.5", "return heach(1,function(y){throw 'inner'})", "null.x", "hpanic()", "(function r(){r()})()"}
	var out []string
	for _, e := range ends {
		for _, call := range []string{"heach(2,function(x){%s})", "hmapstr(['a','b'],function(x){%s})", "hvoid(function(x){%s})", "[1].map(function(q){return heach(1,function(x){%s})})"} {
			c := fmt.Sprintf(call, e)
			out = append(out, c, "(function(){try{return "+c+"}catch(e){return 'caught:'+typeof e}})()", "(function(){try{"+c+"}finally{S=1}})()")
		}
	}
	return out
}

// labelProgs: a break (or continue) that leaves a labelled statement of every
// statement kind, as a program, inside a function and inside eval code, with
// the completion value then used.
func labelProgs() []string {
	stmts := []string{"a:if(1)break a;", "a:if(0);else break a;", "a:try{break a}finally{}", "a:try{throw 1}catch(e){break a}", "a:with({})break a;", "a:switch(1){case 1:break a}",
		"a:{break a}", "a:for(;;){break a}", "a:b:c:if(1)break b;", "a:b:if(1)break a;", "a:x=1;", "a:;", "a:var v=1;", "a:do{continue a}while(0);", "a:for(var k in {p:1}){b:if(k)continue a}",
		"a:if(1){b:if(1)break a;x=2}", "a:try{b:try{break a}finally{x=3}}finally{x=4}", "a:if(1)c:for(;;)break a;", "a:debugger;", "a:function(){};", "a:1;"}
	var out []string
	for _, st := range stmts {
		q := strconv.Quote(st)
		out = append(out,
			"var x=0;"+st+"x=5;x",
			"var v=eval("+q+");typeof v",
			"var v=eval("+q+");String(v)+[v].join()+(v+1)",
			"typeof (function(){"+st+"})()",
			"(function(){"+st+"return 5})()",
			"var v=(0,eval)("+q+");v===undefined",
			"Function("+q+")()",
		)
	}
	return out
}

var _ = otto.New
